#!/bin/sh
# tools/sweep.sh SEED [TIER]  - run every check in a fresh process, print one line per check
HERE=$(cd "$(dirname "$0")/.." && pwd)
SEED=${1:-1}; TIER=${2:-quick}
for i in $(seq -w 1 29); do
  s=$(date +%s)
  VERIF_SEED=$SEED "$HERE/vcheck" C$i --tier $TIER > /tmp/sweep_${SEED}_${TIER}_C$i.log 2>&1
  rc=$?
  echo "C$i seed=$SEED tier=$TIER rc=$rc $(( $(date +%s) - s ))s $(grep -c '^VIOLATION' /tmp/sweep_${SEED}_${TIER}_C$i.log) violations"
done
