#!/bin/sh
# tools/mut.sh <file-relative-to-repo> <python-regex-old> <new> <PROP> [extra vcheck args]
# applies one textual mutation to a scratch copy of /repo under /tmp/mut and runs the check on it
set -e
F="$1"; OLD="$2"; NEW="$3"; PROP="$4"; shift 4
rm -rf /tmp/mut && mkdir -p /tmp/mut && rsync -a --exclude .git --exclude examples /repo/ /tmp/mut/
/venv/bin/python - "$F" "$OLD" "$NEW" <<'PY'
import sys
f, old, new = sys.argv[1:4]
p = "/tmp/mut/" + f
s = open(p).read()
assert s.count(old) >= 1, "pattern not found"
s = s.replace(old, new, 1)
open(p, "w").write(s)
PY
cd /verif
VERIF_REPO=/tmp/mut VERIF_OUT=/tmp/mut/out ./vcheck "$PROP" --no-shrink "$@" | grep -E "bucket|VIOLATION|tier=" | head -12 || true
rm -rf /tmp/mut
