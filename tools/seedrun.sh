#!/bin/sh
# tools/seedrun.sh <dir with patch.diff [demo.py]> <PROP> [more PROPs...]
# Confirms a seeded change and runs checks against it on a scratch copy of /repo (never /repo itself), so that several
# seeded changes can be tried concurrently:  patch applies, demo exits 0 unchanged / 1 changed, then
# VERIF_REPO=<scratch> ./vcheck PROP (quick tier).  Scratch copy and run-time replay files are removed afterwards.
# Set SEED_TESTS=1 to also run the pinned pytest suite on the changed copy.
D=$(cd "$1" && pwd); shift
HERE=$(cd "$(dirname "$0")/.." && pwd)
S=$(mktemp -d /tmp/seedrun.XXXXXX)
rsync -a --exclude examples /repo/ "$S/"
if [ -f "$D/demo.py" ]; then
  REPO_UNDER_TEST="$S" /venv/bin/python -B "$D/demo.py" >/dev/null 2>&1; echo "demo unchanged rc=$?"
fi
git -C "$S" apply "$D/patch.diff" || { echo "PATCH DOES NOT APPLY"; rm -rf "$S"; exit 2; }
if [ -f "$D/demo.py" ]; then
  REPO_UNDER_TEST="$S" /venv/bin/python -B "$D/demo.py" >/dev/null 2>&1; echo "demo changed rc=$?"
fi
if [ -n "$SEED_TESTS" ]; then
  (cd "$S" && /venv/bin/python -m pytest -q -p no:cacheprovider -n 8 --timeout=900 2>&1 | tail -1)
fi
for P in "$@"; do
  out=$(cd "$HERE" && VERIF_REPO="$S" VERIF_OUT="$S/out" ./vcheck "$P" --no-shrink 2>&1); rc=$?
  echo "$P rc=$rc"; echo "$out" | grep -E "^VIOLATION|HARNESS" | head -5 | sed "s#$S/out/##"
done
rm -rf "$S"
