#!/venv/bin/python
"""tools/seeded.py [ID-X ...]  Run every seeded change kept under /verif/seeded against the check of its property
(quick tier; tools/seedrun.sh applies the patch to a scratch copy of /repo, never to /repo itself) and rewrite
seeded/STATUS.md. Four changes at a time."""
import json, os, re, subprocess, sys
from multiprocessing.pool import ThreadPool

HERE = os.path.dirname(os.path.dirname(os.path.abspath(__file__)))
SEEDED = os.path.join(HERE, "seeded")


def run_one(d):
    prop = d.split("-")[0]
    meta = json.load(open(os.path.join(SEEDED, d, "meta.json")))
    props = [prop] + [p for p in meta.get("also_run", []) if p != prop]
    out = subprocess.run([os.path.join(HERE, "tools", "seedrun.sh"), os.path.join(SEEDED, d)] + props,
                         capture_output=True, text=True).stdout
    demo = re.findall(r"demo (unchanged|changed) rc=(\d+)", out)
    res = {}
    cur = None
    for line in out.splitlines():
        m = re.match(r"^(C\d\d) rc=(\d+)", line)
        if m:
            cur = m.group(1)
            res[cur] = {"rc": int(m.group(2)), "buckets": []}
        elif line.startswith("VIOLATION") and cur:
            b = re.sub(r".*replays/[^/]*/", "", line)
            b = re.sub(r"-[0-9a-f]{8}\.json$", "", b)
            res[cur]["buckets"].append(re.sub(r"^new-", "", b))
    return d, dict(demo), res, meta


def superseded_all():
    return [d for d in sorted(os.listdir(SEEDED)) if re.match(r"C\d\d-[A-Z]$", d)
            and json.load(open(os.path.join(SEEDED, d, "meta.json"))).get("superseded")]


def main():
    dirs = sys.argv[1:] or sorted(x for x in os.listdir(SEEDED) if re.match(r"C\d\d-[A-Z]$", x))
    superseded = [d for d in dirs if json.load(open(os.path.join(SEEDED, d, "meta.json"))).get("superseded")]
    dirs = [d for d in dirs if d not in superseded]
    with ThreadPool(6) as pool:
        rows = pool.map(run_one, dirs)
    lines = ["# Seeded changes and the checks that catch them", "",
             "Written by tools/seeded.py (quick tier, VERIF_SEED=1). `caught` = the check exits 1 with a VIOLATION line.", "",
             "| change | file | needs to manifest | demo (unchanged/changed) | check: result (first buckets) |", "|---|---|---|---|---|"]
    missed = 0
    for d, demo, res, meta in rows:
        cells = []
        for p, r in res.items():
            caught = r["rc"] == 1 and r["buckets"]
            cells.append(f"{p}: {'caught' if caught else 'MISSED rc=' + str(r['rc'])}" + (" (" + "; ".join(r["buckets"][:2]) + ")" if caught else ""))
        if not any(r["rc"] == 1 for r in res.values()):
            missed += 1
        needs = str(meta.get("needs_to_manifest", "")).replace("|", "/").replace("\n", " ")
        lines.append(f"| {d} | {', '.join(meta.get('files', []))} | {needs[:260]} | {demo.get('unchanged', '?')}/{demo.get('changed', '?')} | {'<br>'.join(cells)} |")
    lines += ["", f"{len(rows)} changes, {missed} missed by every check that was run against them."]
    for d in superseded:
        lines.append(f"Not run: {d} - superseded " + json.load(open(os.path.join(SEEDED, d, "meta.json")))["superseded"])
    status = os.path.join(SEEDED, "STATUS.md")
    if not sys.argv[1:]:
        open(status, "w").write("\n".join(lines) + "\n")
    elif os.environ.get("SEEDED_MERGE") and os.path.exists(status):
        # replace the rows of the changes that were re-run, keep the others, recount
        new_rows = {l.split("|")[1].strip(): l for l in lines if l.startswith("| C")}
        old = open(status).read().splitlines()
        body = [new_rows.pop(l.split("|")[1].strip(), l) if l.startswith("| C") else l for l in old]
        rows_ = sorted([l for l in body if l.startswith("| C")] + list(new_rows.values()))
        rows_ = [l for l in rows_ if l.split("|")[1].strip() not in superseded_all()]
        miss = sum(1 for l in rows_ if "caught" not in l.split("|")[-2])
        head = [l for l in old if not l.startswith("| C") and not l.startswith("Not run:") and " changes, " not in l]
        while head and head[-1] == "":
            head.pop()
        tail = ["", f"{len(rows_)} changes, {miss} missed by every check that was run against them."]
        for d in superseded_all():
            tail.append(f"Not run: {d} - superseded " + json.load(open(os.path.join(SEEDED, d, "meta.json")))["superseded"])
        open(status, "w").write("\n".join(head + rows_ + tail) + "\n")
    print("\n".join(lines[6:]))
    return 0


if __name__ == "__main__":
    sys.exit(main())
