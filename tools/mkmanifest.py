#!/venv/bin/python
"""Regenerate MANIFEST.json from the check modules present in checks/ (run from /verif)."""
import importlib, json, os, sys

HERE = os.path.dirname(os.path.dirname(os.path.abspath(__file__)))
sys.path.insert(0, HERE)
os.chdir(HERE)
props = [json.loads(l) for l in open("properties.jsonl")]
checks, na = [], []
PENDING = json.load(open("tools/pending.json")) if os.path.exists("tools/pending.json") else {}
for p in props:
    pid = p["id"]
    path = f"checks/{pid.lower()}.py"
    if not os.path.exists(path):
        na.append({"property_id": pid, "reason": PENDING.get(pid, "no generated check has been built for this property yet (see DESIGN.md section 3 for the planned one)")})
        continue
    m = importlib.import_module(f"checks.{pid.lower()}")
    checks.append({
        "property_id": pid,
        "quick_cmd": f"./vcheck {pid} --tier quick",
        "thorough_cmd": f"./vcheck {pid} --tier thorough",
        "evidence_file": f"evidence/{pid}.json",
        "replay_cmd_template": f"./vcheck {pid} --replay {{path}}",
        "engine": "harness",
        "level_claimed": {
            "category": getattr(m, "LEVEL", "exploration"),
            "text": m.LEVEL_TEXT,
            "design_ref": f"DESIGN.md section 3, {pid}",
        },
        "level_note": m.LEVEL_NOTE,
        "technique": m.TECHNIQUE,
    })
man = {
    "version": 1,
    "setup_cmd": "./setup.sh",
    "hooks": {
        "guard": "CARDILLOPROJECT_CARDILLO_VERIF",
        "enable": "vcheck exports CARDILLOPROJECT_CARDILLO_VERIF=1; no guarded source hooks exist (observation and fault injection are done from the harness by rebinding names / wrapping instances), cardillo is imported from /repo's working tree by a fresh interpreter on every run",
        "baseline_off_cmd": "cd /repo && /venv/bin/python -m pytest -ra -q -p no:cacheprovider --timeout=900 --continue-on-collection-errors",
        "source_commits": [],
        "add_only": True,
    },
    "engines": [{
        "name": "harness",
        "path": "harness/runner.py",
        "serves_properties": [c["property_id"] for c in checks],
        "kind_free_text": "Hypothesis-driven generated search (specs are JSON data; histories are generated operation lists run against a reference model) with reference-model, differential, metamorphic and validity-predicate oracles; failures bucketed by (sub-check, site), shrunk by Hypothesis, replayed without Hypothesis",
    }],
    "checks": checks,
    "not_applicable": na,
    "notes": "All checks: ./vcheck <ID> --tier quick|thorough; VERIF_SEED selects the Hypothesis seed; evidence/<ID>.json is rewritten by every run; known_findings.json is read-only at run time.",
}
json.dump(man, open("MANIFEST.json", "w"), indent=1)
