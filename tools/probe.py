"""tools/probe.py PROP N [site-substring]: run N generated cases in-process, print failures' features (debug aid)."""
import sys, os, json
sys.path.insert(0, os.path.dirname(os.path.dirname(os.path.abspath(__file__))))
from harness import runner
import importlib, hypothesis
from hypothesis import given
prop, n = sys.argv[1], int(sys.argv[2]); filt = sys.argv[3] if len(sys.argv) > 3 else ""
mod = importlib.import_module(f"checks.{prop.lower()}")
rows = []
@hypothesis.seed(int(os.environ.get("VERIF_SEED", "1")))
@runner.hyp_settings(n, False, "quick")
@given(mod.strategy("quick"))
def t(spec):
    r = runner.run_case(mod, spec)
    for f in r.failures:
        if filt in f["site"] or filt in f["subcheck"]:
            rows.append((f["subcheck"], f["site"], f["magnitude"], f["features"], f.get("detail")))
t()
for r in rows[:int(os.environ.get("ROWS", "60"))]:
    print(r)
print(len(rows), "failures")
