"""C01 Quaternion rotation kernel is algebraically exact."""

import math

import numpy as np
from hypothesis import strategies as st

from harness import gen
from harness.numdiff import jacobian, compare
from harness.runner import Result

PROPERTY = "C01"
LEVEL = "exploration"
RULE = (
    "case = (P, Q, w, c, a, b): P, Q = unit quaternion (axis-angle, 4 normals, sparse, negative scalar part, "
    "identity) times a log-uniform scale in [1e-3,1e3] (thorough: [1e-6,1e6]); w in R^3 with log-uniform norm "
    "over 6 decades; scale factor c log-uniform in [1e-3,1e3] with random sign; a, b in R^3. Non-trivial: "
    "| |P| - 1 | > 1e-3 and at least two vector components of P non-zero. Distinct = hash of the case."
)
ASSUMPTIONS = [
    "reference rotation = 40-digit mpmath sandwich product P v conj(P) / |P|^2 (independent formula)",
    "float64 identities are accepted within 1e-12 relative to the natural scale of the quantity (forward error "
    "of the <=30 flops involved is < 1e-14)",
    "normalize=False variants are exercised only at |P|=1, their documented precondition",
    "partial derivatives: Richardson central differences (h=1e-3|P|), purely relative tolerance 1e-6",
]
CASES = {"quick": 4000, "thorough": 200000}
SHARDS = {"quick": 4, "thorough": 16}
TECHNIQUE = "generated quaternions over 6-12 decades vs mpmath reference, algebraic identities and differenced derivatives"
LEVEL_TEXT = (
    "Generated-input search over quaternions of any length (6 decades quick, 12 thorough), structured special "
    "cases included, against a 40-digit reference rotation and the algebraic identities the statement lists; "
    "derivative routines against Richardson differences. Detects any wrong coefficient, sign, index or missing "
    "normalisation term; it is sampling, not a symbolic proof of the polynomial identities."
)
LEVEL_NOTE = "trusted: mpmath arithmetic, numpy; tolerances 1e-12 (identities) and 1e-6 relative (derivatives)"


@st.composite
def _case(draw, wide):
    lo, hi = (-6, 6) if wide else (-3, 3)
    P = draw(gen.quat(lo, hi))
    Q = draw(gen.quat(lo, hi))
    w = draw(gen.vec3(-3, 3))
    c = draw(gen.log_uniform(-3, 3)) * draw(st.sampled_from([1.0, -1.0]))
    a = draw(gen.vec3(-3, 3))
    b = draw(gen.vec3(-3, 3))
    return {"P": P, "Q": Q, "w": w, "c": c, "a": a, "b": b,
            # how arguments are handed over: fresh arrays, or views into a work buffer that is overwritten between calls
            "call": draw(st.sampled_from(["fresh", "fresh", "buffer"])),
            # integer-valued quaternion / vector passed as integer-typed arrays (e.g. np.array([0, 0, 0, 1]))
            "Pi": draw(st.lists(st.integers(-3, 3), min_size=4, max_size=4).filter(lambda v: any(v))),
            "ai": draw(st.lists(st.integers(-3, 3), min_size=3, max_size=3))}


def strategy(tier):
    return _case(tier == "thorough")


def static_cases(tier):
    out = []
    for P in ([1.0, 0, 0, 0], [0, 1.0, 0, 0], [0, 0, 0, 2.0], [-0.5, 0.5, 0.5, 0.5], [3.0, 4.0, 0, 0],
              # no positive component / pure scalar part with non-unit length
              [-1.0, 0, 0, 0], [0, -1.0, 0, 0], [-0.6, 0, 0, -0.8], [-3.0, 0, 0, -4.0], [2.0, 0, 0, 0], [-3.0, 0, 0, 0],
              [0, 0, -0.5, 0]):
        out.append({"P": list(map(float, P)), "Q": [0.0, 0.0, 1.0, 0.0], "w": [0.1, -0.2, 0.3], "c": -2.0,
                    "a": [1.0, 2.0, 3.0], "b": [-1.0, 0.5, 0.0]})
    return out


def _mp_R(P):
    import mpmath as mp

    mp.mp.dps = 40
    w, x, y, z = [mp.mpf(float(v)) for v in P]
    n2 = w * w + x * x + y * y + z * z

    def qmul(a, b):
        return (
            a[0] * b[0] - a[1] * b[1] - a[2] * b[2] - a[3] * b[3],
            a[0] * b[1] + a[1] * b[0] + a[2] * b[3] - a[3] * b[2],
            a[0] * b[2] - a[1] * b[3] + a[2] * b[0] + a[3] * b[1],
            a[0] * b[3] + a[1] * b[2] - a[2] * b[1] + a[3] * b[0],
        )

    Pq = (w, x, y, z)
    Pc = (w, -x, -y, -z)
    R = np.zeros((3, 3))
    for j in range(3):
        e = [mp.mpf(0)] * 4
        e[j + 1] = mp.mpf(1)
        v = qmul(qmul(Pq, tuple(e)), Pc)
        for i in range(3):
            R[i, j] = float(v[i + 1] / n2)
    return R


def check(spec):
    from cardillo.math import rotations as _rot
    from harness.callconv import Proxy

    rot = Proxy(_rot, spec.get("call", "fresh"))
    from cardillo.math import algebra as alg

    res = Result()
    P = np.array(spec["P"], dtype=float)
    Q = np.array(spec["Q"], dtype=float)
    w = np.array(spec["w"], dtype=float)
    c = float(spec["c"])
    a = np.array(spec["a"], dtype=float)
    b = np.array(spec["b"], dtype=float)
    nP = float(np.linalg.norm(P))
    feats = {"normP": nP}
    tol = 1e-12

    def expect(sub, site, err, scale=1.0, detail=None):
        res.ok()
        if not np.isfinite(err) or err > tol * scale:
            res.fail(sub, site, err, feats, detail or f"err={err:.3e} scale={scale:.3e}")

    R = rot.Exp_SO3_quat(P)
    I3 = np.eye(3)
    expect("orthonormal", "Exp_SO3_quat", np.max(np.abs(R.T @ R - I3)))
    expect("det_plus_one", "Exp_SO3_quat", abs(np.linalg.det(R) - 1.0))
    expect("matches_reference", "Exp_SO3_quat", np.max(np.abs(R - _mp_R(P))))
    expect("scale_invariant", "Exp_SO3_quat", np.max(np.abs(rot.Exp_SO3_quat(c * P) - R)))
    # unit-length variant agrees at |P| = 1
    U = P / nP
    U = U / np.linalg.norm(U)
    expect("unnormalised_variant_at_unit_length", "Exp_SO3_quat", np.max(np.abs(rot.Exp_SO3_quat(U, normalize=False) - R)))
    # homomorphism
    RQ = rot.Exp_SO3_quat(Q)
    expect("homomorphism", "quatprod", np.max(np.abs(rot.Exp_SO3_quat(rot.quatprod(P, Q)) - R @ RQ)))
    PQ = rot.quatprod(P, Q)
    expect("norm_multiplicative", "quatprod", abs(np.linalg.norm(PQ) - nP * np.linalg.norm(Q)), nP * np.linalg.norm(Q))

    # tangent map times inverse
    T = rot.T_SO3_quat(P)
    Ti = rot.T_SO3_inv_quat(P)
    expect("tangent_inverse", "T_SO3_quat*T_SO3_inv_quat", np.max(np.abs(T @ Ti - I3)))
    Tu = rot.T_SO3_quat(U, normalize=False)
    Tiu = rot.T_SO3_inv_quat(U, normalize=False)
    expect("tangent_inverse", "T_SO3_quat*T_SO3_inv_quat(normalize=False,|P|=1)", np.max(np.abs(Tu @ Tiu - I3)))

    # kinematic identity: P_dot = T_inv(P) w  =>  spin of R(P(t)) is w, |P| stays constant
    nw = float(np.linalg.norm(w))
    if nw > 0:
        P_dot = rot.T_SO3_inv_quat(P, normalize=False) @ w
        R_dot = np.einsum("ijk,k->ij", rot.Exp_SO3_quat_P(P), P_dot)
        S = R.T @ R_dot
        expect("kinematic_identity_spin", "T_SO3_inv_quat->Exp_SO3_quat_P", np.max(np.abs(alg.skew2ax(S) - w)), nw)
        expect("kinematic_identity_skew", "T_SO3_inv_quat->Exp_SO3_quat_P", np.max(np.abs(S + S.T)), nw)
        expect("quaternion_length_constant", "T_SO3_inv_quat", abs(P @ P_dot), nP * np.linalg.norm(P_dot) + 1e-300)
        expect("tangent_recovers_rate", "T_SO3_quat", np.max(np.abs(T @ P_dot - w)), nw)

    # partial derivatives (normalising variant anywhere; unnormalised at unit length), at P and then at Q: consecutive
    # evaluations at different quaternions, as a Newton iteration or an in-place updated work buffer produces them
    # (all normalising evaluations first, then all un-normalising ones, so that consecutive calls share their flags)
    triples = (
        ("Exp_SO3_quat_P", rot.Exp_SO3_quat, rot.Exp_SO3_quat_P),
        ("T_SO3_quat_P", rot.T_SO3_quat, rot.T_SO3_quat_P),
        ("T_SO3_inv_quat_P", rot.T_SO3_inv_quat, rot.T_SO3_inv_quat_P),
    )
    for name, fun, dfun in triples:
        for X in (P, Q):
            num, dis = jacobian(lambda x: fun(x), X, 1e-3 * float(np.linalg.norm(X)))
            compare(res, "partial_derivative", name, dfun(X), num, dis, feats, tol=1e-6, relative=True)
    for name, fun, dfun in triples:
        for X in (P, Q):
            UX = X / float(np.linalg.norm(X))
            UX = UX / np.linalg.norm(UX)
            num, dis = jacobian(lambda x: fun(x, normalize=False), UX, 1e-3)
            compare(res, "partial_derivative", name + "(normalize=False,|P|=1)", dfun(UX, normalize=False), num, dis,
                    feats, tol=1e-6, relative=True)

    # vector algebra
    sab = float(np.linalg.norm(a) * np.linalg.norm(b))
    expect("algebra", "ax2skew@b=cross3", np.max(np.abs(alg.ax2skew(a) @ b - alg.cross3(a, b))), sab + 1e-300)
    expect("algebra", "ax2skew_squared", np.max(np.abs(alg.ax2skew_squared(a) - alg.ax2skew(a) @ alg.ax2skew(a))),
           float(a @ a) + 1e-300)
    expect("algebra", "skew2ax(ax2skew)", np.max(np.abs(alg.skew2ax(alg.ax2skew(a)) - a)), float(np.linalg.norm(a)) + 1e-300)
    expect("algebra", "ax2skew_a", np.max(np.abs(np.einsum("ijk,k->ij", alg.ax2skew_a(), a) - alg.ax2skew(a))),
           float(np.linalg.norm(a)) + 1e-300)
    M = np.outer(a, b)
    expect("algebra", "skew2ax_A", np.max(np.abs(np.einsum("ijk,jk->i", alg.skew2ax_A(), M) - alg.skew2ax(M))), sab + 1e-300)
    # cross product against numpy
    expect("algebra", "cross3", np.max(np.abs(alg.cross3(a, b) - np.cross(a, b))), sab + 1e-300)

    # integer-typed arguments denote the same quaternions / vectors as their float copies (routines that accept them:
    # Exp_SO3_quat / T_SO3_quat divide in place and reject integer arrays with a TypeError, which is not a wrong value)
    if "Pi" in spec:
        Pi, ai = np.array(spec["Pi"]), np.array(spec["ai"])
        Pf, af = Pi.astype(float), ai.astype(float)
        for nm, got, want in (
            ("quatprod(int,float)", rot.quatprod(Pi, Q), rot.quatprod(Pf, Q)),
            ("quatprod(float,int)", rot.quatprod(Q, Pi), rot.quatprod(Q, Pf)),
            ("cross3(int,float)", alg.cross3(ai, b), np.cross(af, b)),
            ("cross3(float,int)", alg.cross3(b, ai), np.cross(b, af)),
            ("ax2skew(int)@float", alg.ax2skew(ai) @ b, np.cross(af, b)),
        ):
            got, want = np.asarray(got, dtype=float), np.asarray(want, dtype=float)
            expect("integer_typed_argument", nm, float(np.max(np.abs(got - want))), 1.0 + float(np.max(np.abs(want))))
    res.label("call:" + spec.get("call", "fresh"))

    nz = int(np.sum(np.abs(P[1:]) > 0))
    res.nontrivial = abs(nP - 1.0) > 1e-3 and nz >= 2
    res.label(f"|P|~1e{int(math.floor(math.log10(nP) + 0.5)):+d}")
    if P[0] < 0:
        res.label("negative_scalar_part")
    if nz < 3:
        res.label("sparse_vector_part")
    return res
