"""C04 Rigid body, point mass and frame kinematics are self-consistent."""

import numpy as np
from hypothesis import strategies as st

from harness import gen, build
from harness.numdiff import jacobian, directional, compare
from harness.runner import Result

PROPERTY = "C04"
LEVEL = "exploration"
RULE = (
    "case = one contribution (RigidBody with random mass, SPD inertia and a quaternion of any length in "
    "[0.1,10] or near one; PointMass; Frame with a generated smooth motion r(t)=c0+c1 t+c2 t^2+a sin(wt+ph), "
    "A(t)=A0 Exp(axis th(t)) supplied with analytic first and second derivatives), a time, velocities u, "
    "accelerations u_dot and a body-fixed offset B_r_CP (zero, small or large). Time-derivative clauses are "
    "checked along the curve eps -> (t+eps, q+eps q_dot(t,q,u), u+eps u_dot), partial derivatives by Richardson "
    "differences. Non-trivial: offset != 0 and, for frames, a rotating frame."
)
ASSUMPTIONS = [
    "differencing tolerance 1e-6*(1+max|value|); cases where two Richardson levels disagree by >1e-7 are inconclusive",
    "kappa_P is defined by a_P = J_P u_dot + kappa_P (the decomposition the joints use); a frame has no velocities so "
    "kappa_P must equal a_P there",
    "PointMass has no orientation, so the spin clauses are checked for RigidBody and Frame only; a kinetic energy "
    "is reported by PointMass only",
]
CASES = {"quick": 1500, "thorough": 80000}
SHARDS = {"quick": 6, "thorough": 16}
TECHNIQUE = "generated bodies/frames/states; time-derivative hierarchy differenced along the kinematic flow; Richardson partial derivatives"
LEVEL_TEXT = (
    "Generated-input search over bodies, prescribed motions, non-unit quaternions, offsets and states with a "
    "differential oracle (each level of the kinematic hierarchy is the reference for the next). Sampling, not proof."
)
LEVEL_NOTE = "trusted: the contribution's own r_OP/A_IB as primal reference for v_P/J_P/a_P, numpy"


@st.composite
def _case(draw):
    kind = draw(st.sampled_from(["rigid", "rigid", "point", "frame", "frame"]))
    if kind == "rigid":
        body = draw(build.rigid_body(wide_quat=draw(st.booleans())))
    elif kind == "point":
        body = draw(build.point_mass())
    else:
        body = draw(build.frame_body(moving=draw(st.sampled_from([True, True, False])), rotating=draw(st.sampled_from([True, True, False]))))
    off = draw(st.sampled_from(["zero", "small", "large", "large"]))
    if off == "zero":
        B = [0.0, 0.0, 0.0]
    else:
        B = (np.array(draw(gen.unit_vec3())) * (draw(gen.f(1e-3, 1e-1)) if off == "small" else draw(gen.f(0.2, 3.0)))).tolist()
    return {
        "body": body,
        "t": draw(gen.f(0.0, 2.0)),
        "u_dot": [draw(gen.f(-3, 3)) for _ in range(6)],
        "B_r_CP": B,
    }


def strategy(tier):
    return _case()


def check(spec):
    from cardillo.math import skew2ax

    res = Result()
    bs = spec["body"]
    body = build.make_body(bs)
    kind = bs["kind"]
    site = {"rigid": "RigidBody", "point": "PointMass", "frame": "Frame"}[kind]
    t = float(spec["t"])
    B = np.array(spec["B_r_CP"], dtype=float)
    q = np.asarray(body.q0, dtype=float).copy()
    u = np.asarray(body.u0, dtype=float).copy()
    nq, nu = len(q), len(u)
    ud = np.array(spec["u_dot"][:nu], dtype=float)
    qd = np.asarray(body.q_dot(t, q, u), dtype=float) if nq else np.zeros(0)
    feats = {"kind": kind}
    hq = build.fd_steps(q, [slice(3, 7)] if kind == "rigid" else [])
    hu = build.fd_steps(u)
    kw = dict(xi=None, B_r_CP=B)

    def flow(f):
        """d/d eps f(t+eps, q+eps qd, u+eps ud)"""
        return directional(lambda e: f(t + e, q + e * qd, u + e * ud), 1e-3)

    def cmp(sub, analytic, num, dis):
        compare(res, sub, site, analytic, num, dis, feats, tol=1e-6)

    # All clauses are evaluated three times on the same object at the same (t, q): at (u, u_dot, B_r_CP) of the case,
    # then at another body-fixed point, then at another velocity and acceleration. The bodies memoise kinematic quantities per
    # configuration; a quantity that also depends on the velocity or on the point and is keyed on less is served stale.
    for _pass in range(3):
        if _pass == 1:
            # another body-fixed point, same velocity
            kw = dict(xi=None, B_r_CP=-0.7 * B + np.array([0.1, 0.2, -0.3]))
        if _pass == 2:
            # another velocity and acceleration, same point
            if not nu:
                break
            u = -0.6 * u[::-1] + 0.3
            ud = 0.8 * ud[::-1] - 0.1
            qd = np.asarray(body.q_dot(t, q, u), dtype=float) if nq else np.zeros(0)
        # ---- translational hierarchy ----------------------------------------------------------
        num, dis = flow(lambda t_, q_, u_: body.r_OP(t_, q_, **kw))
        cmp("v_is_dr_dt", body.v_P(t, q, u, **kw), num, dis)
        num, dis = flow(lambda t_, q_, u_: body.v_P(t_, q_, u_, **kw))
        cmp("a_is_dv_dt", body.a_P(t, q, u, ud, **kw), num, dis)
        J = np.asarray(body.J_P(t, q, **kw), dtype=float)
        if nu:
            num, dis = jacobian(lambda u_: body.v_P(t, q, u_, **kw), u, hu)
            cmp("J_is_dv_du", J, num, dis)
        if hasattr(body, "kappa_P"):
            a = np.asarray(body.a_P(t, q, u, ud, **kw), dtype=float)
            kap = np.asarray(body.kappa_P(t, q, u, **kw), dtype=float)
            res.ok()
            err = float(np.max(np.abs(a - (J @ ud if nu else 0.0) - kap)))
            if err > 1e-10 * (1 + float(np.max(np.abs(a)))):
                res.fail("a_equals_J_udot_plus_kappa", site, err, feats, f"err={err:.3e}")

        # ---- rotational hierarchy ---------------------------------------------------------------
        if hasattr(body, "A_IB"):
            A = np.asarray(body.A_IB(t, q), dtype=float)
            res.ok()
            if np.max(np.abs(A.T @ A - np.eye(3))) > 1e-12:
                res.fail("A_IB_is_rotation", site, float(np.max(np.abs(A.T @ A - np.eye(3)))), feats)
            dA, dis = flow(lambda t_, q_, u_: body.A_IB(t_, q_))
            S = A.T @ dA
            cmp("omega_is_spin", body.B_Omega(t, q, u), skew2ax(S), dis)
            res.ok()
            if np.max(np.abs(S + S.T)) > 1e-6 * (1 + np.max(np.abs(S))) and dis < 1e-7:
                res.fail("A_IB_rate_is_skew", site, float(np.max(np.abs(S + S.T))), feats)
            num, dis = flow(lambda t_, q_, u_: body.B_Omega(t_, q_, u_))
            cmp("psi_is_domega_dt", body.B_Psi(t, q, u, ud), num, dis)
            BJ = np.asarray(body.B_J_R(t, q), dtype=float)
            if nu:
                num, dis = jacobian(lambda u_: body.B_Omega(t, q, u_), u, hu)
                cmp("B_J_R_is_dOmega_du", BJ, num, dis)
            psi = np.asarray(body.B_Psi(t, q, u, ud), dtype=float)
            kr = np.asarray(body.B_kappa_R(t, q, u), dtype=float)
            res.ok()
            err = float(np.max(np.abs(psi - (BJ @ ud if nu else 0.0) - kr)))
            if err > 1e-10 * (1 + float(np.max(np.abs(psi)))):
                res.fail("psi_equals_J_R_udot_plus_kappa_R", site, err, feats)

        # ---- partial derivatives -----------------------------------------------------------------
        if nq:
            def dq(name, f, analytic):
                num, dis = jacobian(f, q, hq)
                cmp(f"partial:{name}", analytic, num, dis)

            def du(name, f, analytic):
                num, dis = jacobian(f, u, hu)
                cmp(f"partial:{name}", analytic, num, dis)

            dq("r_OP_q", lambda q_: body.r_OP(t, q_, **kw), body.r_OP_q(t, q, **kw))
            dq("v_P_q", lambda q_: body.v_P(t, q_, u, **kw), body.v_P_q(t, q, u, **kw))
            dq("J_P_q", lambda q_: body.J_P(t, q_, **kw), body.J_P_q(t, q, **kw))
            dq("a_P_q", lambda q_: body.a_P(t, q_, u, ud, **kw), body.a_P_q(t, q, u, ud, **kw))
            du("a_P_u", lambda u_: body.a_P(t, q, u_, ud, **kw), body.a_P_u(t, q, u, ud, **kw))
            if hasattr(body, "q_dot_q"):
                dq("q_dot_q", lambda q_: body.q_dot(t, q_, u), body.q_dot_q(t, q, u))
            du("q_dot_u", lambda u_: body.q_dot(t, q, u_), body.q_dot_u(t, q))
            if kind == "rigid":
                dq("A_IB_q", lambda q_: body.A_IB(t, q_), body.A_IB_q(t, q))
                dq("kappa_P_q", lambda q_: body.kappa_P(t, q_, u, **kw), body.kappa_P_q(t, q, u, **kw))
                du("kappa_P_u", lambda u_: body.kappa_P(t, q, u_, **kw), body.kappa_P_u(t, q, u, **kw))
                dq("B_Omega_q", lambda q_: body.B_Omega(t, q_, u), body.B_Omega_q(t, q, u))
                dq("B_Psi_q", lambda q_: body.B_Psi(t, q_, u, ud), body.B_Psi_q(t, q, u, ud))
                du("B_Psi_u", lambda u_: body.B_Psi(t, q, u_, ud), body.B_Psi_u(t, q, u, ud))
                dq("B_J_R_q", lambda q_: body.B_J_R(t, q_), body.B_J_R_q(t, q))
                dq("B_kappa_R_q", lambda q_: body.B_kappa_R(t, q_, u), body.B_kappa_R_q(t, q, u))
                du("B_kappa_R_u", lambda u_: body.B_kappa_R(t, q, u_), body.B_kappa_R_u(t, q, u))
                dq("g_S_q", lambda q_: body.g_S(t, q_), body.g_S_q(t, q))
                du("h_u", lambda u_: body.h(t, q, u_), body.h_u(t, q, u))
                # quaternion length is preserved by the kinematic equation
                P = q[3:]
                res.ok()
                if abs(P @ qd[3:]) > 1e-12 * (np.linalg.norm(P) * np.linalg.norm(qd[3:])) + 1e-30:
                    res.fail("quat_norm_preserved", site, abs(P @ qd[3:]), feats)
                h = np.asarray(body.h(t, q, u), dtype=float)
                res.ok()
                # tolerance relative to the natural size |Theta| |omega|^2 |u| of the terms, not to |h|: for a nearly
                # isotropic inertia h itself is a rounded zero (thorough tier, seed 1: h ~ 1e-17, a false alarm of the
                # first version which scaled with |h|)
                hs = float(np.max(np.abs(np.asarray(spec["body"]["theta"], dtype=float)))) * float(u[3:] @ u[3:])
                if abs(h @ u) > 1e-12 * (max(np.linalg.norm(h), hs) * np.linalg.norm(u)) + 1e-30:
                    res.fail("gyro_powerless", site, abs(h @ u), feats)
                # step_callback normalises without changing the rotation
                qn, _ = body.step_callback(t, q.copy(), u.copy())
                res.ok()
                if abs(np.linalg.norm(qn[3:]) - 1) > 1e-14 or np.max(np.abs(body.A_IB(t, qn) - A)) > 1e-12:
                    res.fail("step_callback_normalises_only", site, None, feats)
            M = np.asarray(body.M(t, q), dtype=float)
            res.ok()
            sym = float(np.max(np.abs(M - M.T)))
            try:
                np.linalg.cholesky(M)
                pd = True
            except np.linalg.LinAlgError:
                pd = False
            if sym > 1e-12 * np.max(np.abs(M)) or not pd:
                res.fail("mass_spd", site, sym, feats)
            if hasattr(body, "E_kin"):
                res.ok()
                e = body.E_kin(t, q, u)
                if abs(e - 0.5 * u @ M @ u) > 1e-12 * (1 + abs(e)):
                    res.fail("ekin_is_half_uMu", site, abs(e - 0.5 * u @ M @ u), feats)

    # ---- the body point enters linearly: f(s B) - f(0) = s (f(B) - f(0)) also for very small offsets s B (micro-scale
    # lever arms, or metre offsets in a model that measures in kilometres); judged relative to the offset scale
    if np.any(B != 0):
        s_small = 1e-9
        z3 = np.zeros(3)
        for nm, fn in (("r_OP", lambda b: body.r_OP(t, q, B_r_CP=b)), ("v_P", lambda b: body.v_P(t, q, u, B_r_CP=b)),
                       ("a_P", lambda b: body.a_P(t, q, u, ud, B_r_CP=b)), ("J_P", lambda b: body.J_P(t, q, B_r_CP=b))):
            f0 = np.asarray(fn(z3), dtype=float)
            dB = np.asarray(fn(B), dtype=float) - f0
            ds = np.asarray(fn(s_small * B), dtype=float) - f0
            if dB.size == 0:
                continue
            scale_ = float(np.max(np.abs(dB))) + 1e-300
            res.ok()
            # the difference f(sB) - f(0) carries the round-off of f: ulp(f0)/s
            noise = 8 * float(np.max(np.spacing(np.abs(f0)))) / s_small if f0.size else 0.0
            err = float(np.max(np.abs(ds / s_small - dB)))
            # (absolute floor: an offset along the rotation axis makes f(B) - f(0) itself a rounded zero)
            floor_ = 1e-12 * (1.0 + float(np.max(np.abs(f0))) + float(np.max(np.abs(np.asarray(fn(B), dtype=float)))))
            if err > 1e-6 * scale_ + noise + floor_:
                res.fail("offset_enters_linearly", f"{site}.{nm}", err / scale_, feats, f"relative defect {err / scale_:.3e} at offset scale 1e-9")
    rotating = kind != "frame" or "axis" in bs["motion"]
    res.nontrivial = bool(np.any(B != 0)) and rotating and kind != "point"
    res.label(site, "offset:" + ("zero" if not np.any(B) else "nonzero"))
    if kind == "frame":
        res.label("frame:rotating" if "axis" in bs["motion"] else "frame:translating")
    if kind == "rigid":
        res.label("quat:non-unit" if abs(np.linalg.norm(q[3:]) - 1) > 1e-3 else "quat:unit")
    return res
