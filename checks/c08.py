"""C08 Force-element and actuator Jacobians are exact."""

import numpy as np
from hypothesis import strategies as st

from harness import gen, build, sysbuild
from harness.numdiff import jacobian, compare
from harness.runner import Result

PROPERTY = "C08"
LEVEL = "exploration"
RULE = (
    "case = two subsystems + one interaction (TwoPointInteraction with body-fixed offsets between any of fixed/moving "
    "Frame, PointMass, RigidBody; or Revolute between Frame/RigidBody and RigidBody with random axis, placement and "
    "angle0) + exactly one element under test: Spring / KelvinVoigtElement in force or compliance form, "
    "MaxwellElement, Motor / PDcontroller / PIDcontroller (Revolute only), Force / B_Force / Moment / B_Moment with "
    "time-dependent load and offset; evaluated at a state off the joint manifold with non-unit quaternions, random "
    "u, compliance forces and internal coordinates. Non-trivial: both subsystems carry coordinates and the element "
    "is stretched and moving (|l-l_ref|,|l_dot| > 1e-3) or the load/actuator value is non-zero."
)
ASSUMPTIONS = [
    "actuators only on Revolute (a TwoPointInteraction's W_l is one-dimensional and cannot be assembled as W_tau; the "
    "property's quantifier says the same)",
    "the interaction is added to the System before a MaxwellElement / actuator (as in the repository's scripts)",
    "two-point interactions keep a distance >= 0.5 (l = 0 is singular by definition)",
    "differencing tolerance 1e-6*(1+max|value|); Revolute.l is branch-tracked and continuous over consecutive nearby "
    "evaluations, so differences never see a 2 pi jump",
]
CASES = {"quick": 500, "thorough": 20000}
SHARDS = {"quick": 8, "thorough": 16}
TECHNIQUE = "generated interaction x element x state; Richardson differences of System.h, c, W_c la_c, W_tau la_tau, q_dot vs the reported Jacobians"
LEVEL_TEXT = (
    "Generated-input search over element x interaction x subsystem pairing x off-manifold state with the primal "
    "System routines as reference for their Jacobians. Sampling, not proof."
)
LEVEL_NOTE = "trusted: System.h / c / W_c / W_tau / la_tau / q_dot as primal references"

LAWS = ["Spring", "KelvinVoigt", "Maxwell"]


@st.composite
def _law(draw, allow_none_ref=True):
    t = draw(st.sampled_from(LAWS))
    es = {"type": t, "k": draw(gen.f(0.5, 50.0)), "d": draw(gen.f(0.1, 10.0)),
          "compliance": draw(st.booleans()),
          "l_ref": None if (allow_none_ref and draw(st.integers(0, 3)) == 0) else draw(gen.f(0.2, 3.0))}
    if t == "Maxwell":
        es["l_d0"] = draw(gen.f(-0.5, 0.5))
    return es


@st.composite
def _case(draw):
    inter = draw(st.sampled_from(["tpi", "tpi", "revolute", "revolute", "load"]))
    spec = {"inter": inter, "t0": draw(gen.f(0, 1))}
    if inter == "tpi":
        kinds = ["rigid", "rigid", "point", "frame_fixed", "frame_moving"]
        bs = []
        for _ in range(2):
            k = draw(st.sampled_from(kinds))
            bs.append(draw(build.rigid_body()) if k == "rigid" else draw(build.point_mass()) if k == "point"
                      else draw(build.frame_body(moving=(k == "frame_moving"), rotating=draw(st.booleans()))))
        if bs[0]["kind"] == "frame" and bs[1]["kind"] == "frame":
            bs[1] = draw(build.rigid_body())
        d = np.array(draw(gen.unit_vec3())) * draw(gen.f(2.0, 4.0))
        for b, sh in zip(bs, (-0.5 * d, 0.5 * d)):
            if b["kind"] == "frame":
                b["motion"]["c0"] = sh.tolist()
                for k in ("c1", "c2", "a"):
                    if k in b["motion"]:
                        b["motion"][k] = (0.2 * np.array(b["motion"][k])).tolist()
            else:
                b["r"] = sh.tolist()
        spec["bodies"] = bs
        spec["tpi"] = {"B1": draw(gen.vec3(-2, -0.5)), "B2": draw(gen.vec3(-2, -0.5))}
        spec["element"] = draw(_law())
    elif inter == "revolute":
        b1 = draw(st.one_of(build.rigid_body(), build.frame_body(moving=False, rotating=False)))
        spec["bodies"] = [b1, draw(build.rigid_body())]
        spec["joint"] = {"type": "Revolute", "axis": draw(st.integers(0, 2)), "angle0": draw(gen.f(-3, 3)),
                         "r_OJ0": [draw(gen.f(-1, 1)) for _ in range(3)] if draw(st.booleans()) else None,
                         "psi_J": draw(gen.rotvec(min_exp=-2, near_max=False)) if draw(st.booleans()) else None}
        if draw(st.booleans()):
            spec["element"] = draw(_law())
        else:
            spec["actuator"] = {"type": draw(st.sampled_from(["Motor", "PD", "PID"])), "kp": draw(gen.f(0.5, 20)),
                                "ki": draw(gen.f(0.1, 5)), "kd": draw(gen.f(0.1, 5)), "w": draw(gen.f(0.3, 3)),
                                "amp": [draw(gen.f(-2, 2)), draw(gen.f(-2, 2))]}
    else:
        k = draw(st.sampled_from(["rigid", "rigid", "rigid", "point"]))
        spec["bodies"] = [draw(build.rigid_body()) if k == "rigid" else draw(build.point_mass())]
        lt = draw(st.sampled_from(["Force", "B_Force", "Moment", "B_Moment"])) if k == "rigid" else "Force"
        spec["load"] = {"type": lt, "f0": draw(gen.vec3(-1, 1)), "f1": draw(gen.vec3(-1, 1)), "w": draw(gen.f(0.3, 3)),
                        "B_r_CP": draw(gen.vec3(-2, 0)) if k == "rigid" else [0.0, 0.0, 0.0]}
    spec["t"] = draw(gen.f(0, 2))
    spec["dq"] = [draw(gen.f(-0.3, 0.3)) for _ in range(16)]
    spec["u"] = [draw(gen.f(-2, 2)) for _ in range(12)]
    spec["la_c"] = draw(gen.f(-3, 3))
    spec["q_int"] = draw(gen.f(-1, 1))
    return spec


def strategy(tier):
    return _case()


def build_case(spec, compliance=None):
    """Returns (system, element, interaction). compliance overrides the element's form (used by C07)."""
    system = sysbuild.new_system(spec["t0"])
    from harness import rodbuild

    bodies = [rodbuild.make_rod(b["rod"], name=f"s{i+1}")[0] if b["kind"] == "rod" else build.make_body(b, name=f"s{i+1}")
              for i, b in enumerate(spec["bodies"])]
    system.add(*bodies)
    inter = None
    if spec["inter"] == "tpi":
        inter = sysbuild.make_tpi(spec["tpi"], *bodies)
        system.add(inter)
    elif spec["inter"] == "revolute":
        inter = sysbuild.make_joint(spec["joint"], *bodies)
        system.add(inter)
    el = None
    if "element" in spec:
        es = dict(spec["element"])
        if compliance is not None:
            es["compliance"] = compliance
        el = sysbuild.make_force_law(es, inter)
    elif "actuator" in spec:
        el = sysbuild.make_actuator(spec["actuator"], inter)
    elif "load" in spec:
        el = sysbuild.make_load(spec["load"], bodies[-1])
    if spec.get("law_first") and inter is not None and "element" in spec and spec["element"]["type"] in ("Spring", "KelvinVoigt"):
        # the force law is added to the System before the interaction it acts on (the laws assemble their interaction
        # themselves, so either order is supported for Spring / KelvinVoigtElement)
        system.remove(inter)
        system.add(el, inter)
    else:
        system.add(el)
    sysbuild.assemble(system)
    return system, el, inter


def element_site(spec):
    if "element" in spec:
        es = spec["element"]
        form = "" if es["type"] == "Maxwell" else ("[compliance]" if es["compliance"] else "[force]")
        return f"{es['type']}{form}@{'TwoPointInteraction' if spec['inter'] == 'tpi' else 'Revolute'}"
    if "actuator" in spec:
        return f"{spec['actuator']['type']}@Revolute"
    return spec["load"]["type"]


def eval_state(spec, system, el):
    nq, nu = system.nq, system.nu
    t = float(spec["t"])
    q = system.q0 + np.array((spec["dq"] * 3)[:nq], dtype=float)
    if hasattr(el, "my_qDOF") and hasattr(el, "nq") and el.nq == 1 and el.__class__.__name__ in ("MaxwellElement", "PIDcontroller"):
        q[el.my_qDOF] = spec["q_int"]
    u = np.array((spec["u"] * 2)[:nu], dtype=float)
    la_c = np.full(system.nla_c, spec["la_c"], dtype=float)
    return t, q, u, la_c


def check(spec):
    res = Result()
    D = sysbuild.dense
    system, el, inter = build_case(spec)
    site = element_site(spec)
    feats = {"element": site, "pair": "+".join(b["kind"] for b in spec["bodies"])}
    t, q, u, la_c = eval_state(spec, system, el)
    hq = build.fd_steps(q, sysbuild.quat_slices(system))
    hu = build.fd_steps(u)

    def cmp(name, analytic, f, x, h):
        if x.size == 0:
            return
        num, dis = jacobian(f, x, h)
        compare(res, f"jacobian:{name}", site, analytic, num, dis, feats, tol=1e-6)

    if inter is not None and spec["inter"] == "revolute":
        system.reset()
        inter.l(t, q[inter.qDOF])  # settle the branch tracking at the evaluation state
    # every Jacobian at the case's velocity and then, on the same objects at the same (t, q), at a second velocity (a
    # velocity-dependent quantity memoised per configuration would be served stale)
    u_first = u
    for u in ([u_first, -0.6 * u_first[::-1] + 0.3] if u_first.size else [u_first]):
        cmp("h_q", D(system.h_q(t, q, u)), lambda q_: system.h(t, q_, u), q, hq)
        cmp("h_u", D(system.h_u(t, q, u)), lambda u_: system.h(t, q, u_), u, hu)
        cmp("q_dot_q", D(system.q_dot_q(t, q, u)), lambda q_: system.q_dot(t, q_, u), q, hq)
        cmp("q_dot_u", D(system.q_dot_u(t, q)), lambda u_: system.q_dot(t, q, u_), u, hu)
        if system.nla_c:
            cmp("c_q", D(system.c_q(t, q, u, la_c)), lambda q_: system.c(t, q_, u, la_c), q, hq)
            cmp("c_u", D(system.c_u(t, q, u, la_c)), lambda u_: system.c(t, q, u_, la_c), u, hu)
            cmp("c_la_c", D(system.c_la_c()), lambda l_: system.c(t, q, u, l_), la_c, 1e-3 * np.ones_like(la_c))
            cmp("Wla_c_q", D(system.Wla_c_q(t, q, la_c)), lambda q_: D(system.W_c(t, q_)) @ la_c, q, hq)
        if system.nla_tau:
            cmp("Wla_tau_q", D(system.Wla_tau_q(t, q, u)), lambda q_: D(system.W_tau(t, q_)) @ system.la_tau(t, q_, u), q, hq)
            cmp("Wla_tau_u", D(system.Wla_tau_u(t, q, u)), lambda u_: D(system.W_tau(t, q)) @ system.la_tau(t, q, u_), u, hu)

    u = u_first

    # classification
    both = all(b["kind"] in ("rigid", "point") for b in spec["bodies"]) and len(spec["bodies"]) == 2
    active = True
    if "element" in spec and inter is not None:
        ql, ul = q[inter.qDOF], u[inter.uDOF]
        l, ld = float(inter.l(t, ql)), float(inter.l_dot(t, ql, ul))
        lref = el.l_ref if el.l_ref is not None else 0.0
        active = abs(l - lref) > 1e-3 and abs(ld) > 1e-3
    res.nontrivial = bool((both or "load" in spec) and active)
    res.label(site, "pair:" + feats["pair"])
    return res
