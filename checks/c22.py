"""C22 Nonlinear and fixed-point helpers honour their convergence contract."""

import warnings

import numpy as np
from hypothesis import strategies as st

from harness import gen
from harness.runner import Result, quiet

PROPERTY = "C22"
LEVEL = "exploration"
RULE = (
    "three case kinds. fsolve: F(x)=Ax+eps*phi(x)-b in dimension 1..8 (phi in sin/tanh/cube; A diagonally dominant, "
    "row-scaled ill-conditioned, or singular), start point, Jacobian mode (exact, 2-point, 3-point, complex-step, "
    "chord with inexact=True, reused SuperLU), atol/rtol log-uniform in [1e-12,1e-3], max_iter 1..30. "
    "fixed point: x -> D g(D^-1 x) with g(z)=Lz+c+eps*sin(z), ||L||_2+eps = rho in [0.05,0.97] (a contraction in "
    "the tolerance-weighted norm), dimension 1..8, scalar or vector atol, rtol, max_iter; both helpers. "
    "approx_fprime: f(x)=A sin(Bx+p)+Cx reshaped to vector/matrix values and 1-D/2-D arguments, methods 2-point, "
    "3-point, cs. Non-trivial: at least two iterations were performed (solvers) / matrix-valued or 2-D argument "
    "(differences)."
)
ASSUMPTIONS = [
    "fsolve: the criterion is recomputed by the harness as ||F(x)/(atol+rtol|F(x0)|)||/sqrt(n) < 1 with its own "
    "evaluation of F (same float operations); exceptions of the linear solver on singular Jacobians count as "
    "'not success' (allowed)",
    "fixed point: the returned point x must satisfy ||(fun(x)-x)/(atol+rtol*max(|x|,|fun(x)|))||/sqrt(n) <= 1; this "
    "follows from the helper's own stopping test (last step x = fun(y), ||(x-y)/scale|| < 1) for every map that "
    "contracts in the tolerance-weighted norm. Generated maps guarantee that: either they are diagonal (each "
    "component contracts on its own, any rtol <= 1e-3) or they are coupled contractions in the atol-weighted norm "
    "with rtol so small that the weights stay proportional to atol (rtol*|x| <= 1e-2 min atol)",
    "approx_fprime: error bound 2*(truncation + round-off) with derivative bounds known from the generator",
]
CASES = {"quick": 3000, "thorough": 100000}
SHARDS = {"quick": 4, "thorough": 16}
TECHNIQUE = "generated nonlinear systems / contractions / smooth maps; validity predicate recomputed by the harness, exact Jacobians as reference"
LEVEL_TEXT = (
    "Generated-input search over problem classes with known structure (so the expected verdict of the helper is "
    "computable independently): residual criterion recomputed at the returned point, warnings observed, "
    "contraction maps with a provable post-condition, finite-difference errors against analytic bounds."
)
LEVEL_NOTE = "trusted: numpy/scipy linear algebra; harness-side evaluation of the generated maps"


def _mat(draw, m, n, lo=-1.0, hi=1.0):
    return [[draw(gen.f(lo, hi)) for _ in range(n)] for _ in range(m)]


@st.composite
def _fsolve_case(draw):
    n = draw(st.integers(1, 8))
    A = np.array(_mat(draw, n, n))
    cond = draw(st.sampled_from(["well", "well", "ill", "singular"]))
    A = A + np.sign(np.diag(A) + 1e-300) * np.eye(n) * (n + 0.5) * np.eye(n)
    if cond == "ill":
        A = np.diag([10.0 ** draw(gen.f(-6, 3)) for _ in range(n)]) @ A
    elif cond == "singular" and n > 1:
        A[-1] = A[0]
    return {
        "kind": "fsolve", "n": n, "A": A.tolist(), "cond": cond,
        "phi": draw(st.sampled_from(["sin", "tanh", "cube"])),
        "eps": draw(gen.f(0.0, 0.5)),
        "b": [draw(gen.f(-3, 3)) for _ in range(n)],
        "x0": [draw(gen.f(-2, 2)) for _ in range(n)],
        # pinv: an underdetermined system (only the first m < n residual components) solved with the module's minimum-norm
        # linear solver pinv_solve
        "mode": draw(st.sampled_from(["exact", "exact", "2-point", "3-point", "cs", "inexact", "superlu"] + (["pinv"] if n >= 2 else []))),
        "m": draw(st.integers(1, max(1, n - 1))),
        "atol": draw(gen.log_uniform(-12, -3)),
        "rtol": draw(gen.log_uniform(-12, -3)),
        "max_iter": draw(st.integers(1, 30)),
    }


@st.composite
def _fp_case(draw):
    n = draw(st.integers(1, 8))
    structure = draw(st.sampled_from(["coupled", "diagonal"]))
    L = np.array(_mat(draw, n, n))
    if structure == "diagonal":
        L = np.diag(np.diag(L))
    rho = draw(gen.f(0.05, 0.97))
    eps = draw(gen.f(0.0, 0.3)) * rho
    s = np.linalg.norm(L, 2)
    L = L * ((rho - eps) / s) if s > 0 else L
    vec = draw(st.booleans())
    if vec:
        atol = [draw(gen.log_uniform(-12, -3)) for _ in range(n)]
    else:
        atol = draw(gen.log_uniform(-12, -3))
    if structure == "diagonal":
        # every component contracts on its own: the post-condition holds for any rtol <= 1e-3
        rtol = draw(gen.log_uniform(-12, -3))
    else:
        # coupled map: the tolerance weights must stay proportional to atol, i.e. the relative part must be
        # negligible: |x| <= 400 on the whole orbit (|z0|<=5, |c|<=3 sqrt(8), rho<=0.97), so rtol*400 <= 1e-2 min(atol)
        rtol = float(np.min(atol)) * 2.5e-5 * draw(gen.log_uniform(-3, 0))
    return {
        "kind": "fixed_point", "n": n, "L": L.tolist(), "eps": eps, "rho": rho, "structure": structure,
        "c": [draw(gen.f(-3, 3)) for _ in range(n)],
        "z0": [draw(gen.f(-5, 5)) for _ in range(n)],
        "atol": atol, "rtol": rtol,
        "max_iter": draw(st.sampled_from([1, 2, 3, 5, 10, 30, 100, 1000, 3000])),
        "helper": draw(st.sampled_from(["plain", "momentum"])),
        # how the map treats its argument: returns a new array, overwrites the argument, or (like the map in
        # DualStormerVerlet._step with its multiplier blocks) overwrites the trailing components through views
        "inplace": draw(st.sampled_from(["none", "none", "full", "tail"])),
    }


@st.composite
def _fd_case(draw):
    xs = draw(st.sampled_from([[1], [2], [3], [5], [2, 2], [3, 2]]))
    fs = draw(st.sampled_from([[1], [2], [3], [2, 2], [3, 3], [2, 3]]))
    n = int(np.prod(xs))
    m = int(np.prod(fs))
    k = draw(st.integers(1, 4))
    return {
        "kind": "approx_fprime", "xshape": xs, "fshape": fs,
        "A": _mat(draw, m, k, -2, 2), "B": _mat(draw, k, n, -2, 2), "p": [draw(gen.f(-3, 3)) for _ in range(k)],
        "C": _mat(draw, m, n, -2, 2), "x": [draw(gen.f(-2, 2)) for _ in range(n)],
        "method": draw(st.sampled_from(["2-point", "3-point", "cs"])),
        "eps": draw(st.sampled_from([None, 1e-6, 1e-5, 1e-7])),
        # evaluation point far from the origin: x = x_small + X0 with |X0_j| up to 1e8, function g(y - X0) (values O(1),
        # evaluated without cancellation error because y - X0 is exact for y near X0)
        "X0": [draw(st.sampled_from([0.0, 0.0, 1.0, -1.0])) * 10.0 ** draw(st.integers(0, 8)) for _ in range(n)],
        # an integer-typed evaluation point with an integer-coefficient polynomial (x0 = np.array([1, 2]) style)
        "int_point": [draw(st.integers(-4, 4)) for _ in range(n)] if draw(st.integers(0, 5)) == 0 else None,
    }


def strategy(tier):
    return st.one_of(_fsolve_case(), _fp_case(), _fd_case())


def _phi(name):
    if name == "sin":
        return np.sin, np.cos
    if name == "tanh":
        return np.tanh, lambda x: 1.0 - np.tanh(x) ** 2
    return (lambda x: x**3), (lambda x: 3 * x**2)


def _check_fsolve(spec, res):
    from scipy.sparse import csc_array
    from scipy.sparse.linalg import splu
    from cardillo.math.fsolve import fsolve
    from cardillo.solver import SolverOptions

    n = spec["n"]
    A = np.array(spec["A"], dtype=float).reshape(n, n)
    b = np.array(spec["b"], dtype=float)
    x0 = np.array(spec["x0"], dtype=float)
    phi, dphi = _phi(spec["phi"])
    eps = spec["eps"]
    F = lambda x: A @ x + eps * phi(x) - b
    J = lambda x: csc_array(A + eps * np.diag(dphi(x)))
    mode = spec["mode"]
    if mode == "pinv":
        m_ = int(spec.get("m", 1))
        F = lambda x: (A @ x + eps * phi(x) - b)[:m_]
        J = lambda x: csc_array((A + eps * np.diag(dphi(x)))[:m_, :])  # pinv_solve expects a sparse matrix
    site = f"fsolve[{mode}]"
    feats = {"mode": mode, "cond": spec["cond"]}
    kw = {}
    opt = dict(newton_atol=spec["atol"], newton_rtol=spec["rtol"], newton_max_iter=spec["max_iter"])
    if mode in ("2-point", "3-point", "cs"):
        opt["numerical_jacobian_method"] = mode
        jac = None
    elif mode == "pinv":
        from cardillo.math.fsolve import pinv_solve
        jac = J
        opt["linear_solver"] = pinv_solve
    elif mode == "inexact":
        jac = J
        kw["inexact"] = True
    elif mode == "superlu":
        try:
            jac = splu(J(x0))
        except Exception:
            res.label("singular_jacobian_at_start")
            return
    else:
        jac = J
    options = SolverOptions(**opt)
    raised = None
    with warnings.catch_warnings(record=True) as rec:
        warnings.simplefilter("always")
        try:
            with quiet():
                r = fsolve(F, x0.copy(), jac=jac, options=options, **kw)
        except (RuntimeError, np.linalg.LinAlgError, ValueError, ArithmeticError) as e:
            raised = e
    if raised is not None:
        res.label("fsolve_raised")
        res.ok()
        return
    msgs = [str(w.message) for w in rec]
    f0 = np.atleast_1d(F(x0))
    scale = spec["atol"] + np.abs(f0) * spec["rtol"]
    fx = np.atleast_1d(F(np.asarray(r.x, dtype=float)))
    err = np.linalg.norm(fx / scale) / scale.size**0.5
    holds = bool(err < 1)
    res.ok()
    if r.success and not holds:
        res.fail("success_means_criterion", site, err, feats, f"success=True but recomputed error {err:.3e}")
    res.ok()
    if (not r.success) and holds:
        res.fail("criterion_met_means_success", site, err, feats, f"success=False but recomputed error {err:.3e}")
    res.ok()
    if r.success and not np.array_equal(np.asarray(r.fun), fx):
        res.fail("fun_is_residual_at_x", site, float(np.max(np.abs(np.asarray(r.fun) - fx))), feats)
    res.ok()
    if not r.success and not any("not converged" in m for m in msgs):
        res.fail("failure_warns", site, None, feats, f"success=False, warnings={msgs[:2]}")
    res.ok()
    if r.success and any("not converged" in m for m in msgs):
        res.fail("no_warning_on_success", site, None, feats)
    res.ok()
    if r.nit > spec["max_iter"]:
        res.fail("iteration_limit", site, r.nit, feats)
    res.nontrivial = r.nit >= 2
    res.label("success" if r.success else "not_converged")
    res.label(f"cond:{spec['cond']}", f"mode:{mode}")


def _check_fp(spec, res):
    from cardillo.solver import dual_stormer_verlet as dsv

    n = spec["n"]
    L = np.array(spec["L"], dtype=float).reshape(n, n)
    c = np.array(spec["c"], dtype=float)
    eps = spec["eps"]
    atol = np.array(spec["atol"], dtype=float) if isinstance(spec["atol"], list) else float(spec["atol"])
    rtol = spec["rtol"]
    D = np.asarray(atol) / np.max(atol) if isinstance(spec["atol"], list) else np.ones(n)
    g = lambda z: L @ z + c + eps * np.sin(z)
    calls = [0]

    style = spec.get("inplace", "none")

    def fun(x):
        calls[0] += 1
        y = D * g(x / D)
        if style == "full":
            x[:] = y
            return x
        if style == "tail":
            k = n // 2
            tail = x[k:]
            tail[:] = y[k:]
            return np.concatenate([y[:k], tail])
        return y

    x0 = D * np.array(spec["z0"], dtype=float)
    helper = dsv.fixed_point_iteration if spec["helper"] == "plain" else dsv.fixed_point_iteration_with_momentum
    site = helper.__name__
    feats = {"helper": spec["helper"], "vector_atol": isinstance(spec["atol"], list)}
    try:
        with quiet():
            x, nit, error = helper(fun, x0.copy(), atol=atol, rtol=rtol, max_iter=spec["max_iter"])
    except (ValueError, RuntimeError):
        res.ok()
        res.label("fixed_point_raised")
        res.nontrivial = calls[0] >= 2
        return
    x = np.asarray(x, dtype=float)
    fx = D * g(x / D)
    scale = atol + np.maximum(np.abs(x), np.abs(fx)) * rtol
    r = float(np.linalg.norm((fx - x) / scale) / np.sqrt(n))
    res.ok()
    if not (r <= 1.0):
        res.fail("returned_point_meets_tolerance", site, r, feats,
                 f"scaled residual {r:.3e} at the returned point (rho={spec['rho']:.2f}, iterations={nit})")
    res.ok()
    if nit > spec["max_iter"]:
        res.fail("iteration_limit", site, nit, feats)
    res.nontrivial = calls[0] >= 2
    res.label("fixed_point_returned", f"helper:{spec['helper']}", f"map:{spec.get('structure', 'coupled')}",
              f"argument:{'overwritten' if style != 'none' else 'untouched'}")


def _check_fd(spec, res):
    from cardillo.math.approx_fprime import approx_fprime

    xs, fs = tuple(spec["xshape"]), tuple(spec["fshape"])
    n, m = int(np.prod(xs)), int(np.prod(fs))
    A = np.array(spec["A"], dtype=float).reshape(m, -1)
    k = A.shape[1]
    B = np.array(spec["B"], dtype=float).reshape(k, n)
    p = np.array(spec["p"], dtype=float)
    C = np.array(spec["C"], dtype=float).reshape(m, n)
    X0 = np.array(spec.get("X0", [0.0] * n), dtype=float)
    x = (np.array(spec["x"], dtype=float) + X0).reshape(xs)  # rounded to the floating-point grid near X0
    xsm = x.reshape(-1) - X0  # exact (Sterbenz), the small argument that corresponds to the rounded x
    f = lambda y: (A @ np.sin(B @ (y.reshape(-1) - X0) + p) + C @ (y.reshape(-1) - X0)).reshape(fs)
    exact = (A @ np.diag(np.cos(B @ xsm + p)) @ B + C).reshape(fs + xs)
    method = spec["method"]
    eps = 1e-6 if spec["eps"] is None else spec["eps"]
    kw = {} if spec["eps"] is None else {"eps": eps}
    if spec.get("int_point") is not None and method != "cs":
        # f(y) = Ai (y*y) + Ci y with integer matrices at an integer point: values of integer type
        Ai = np.round(2 * A[:, :1] @ np.ones((1, n))).astype(int)
        Ci = np.round(C).astype(int)
        xi_ = np.array(spec["int_point"], dtype=int).reshape(xs)
        f = lambda y: (Ai @ (y.reshape(-1) * y.reshape(-1)) + Ci @ y.reshape(-1)).reshape(fs)
        exact = (2 * Ai * xi_.reshape(-1)[None, :] + Ci).astype(float).reshape(fs + xs)
        x = xi_
        xsm = xi_.reshape(-1).astype(float)
        A, B, C = Ai.astype(float), np.zeros((n, n)), Ci.astype(float)
        # error model for the polynomial: second derivative 2|Ai|, third derivative zero
        spec = dict(spec, _poly=True)
    got = approx_fprime(x.copy(), f, method=method, **kw)
    site = f"approx_fprime[{method}]"
    feats = {"method": method}
    res.ok()
    if np.shape(got) != np.squeeze(exact).shape:
        res.fail("fd_shape", site, None, feats, f"{np.shape(got)} vs {np.squeeze(exact).shape}")
        return
    em = 2.3e-16
    M0 = np.sum(np.abs(A), axis=1) + np.abs(C) @ (np.abs(xsm) + 1e-4)  # bound on |f_i|
    M2 = np.abs(A) @ (B**2)  # (m, n): bound on |d2 f_i / dx_j^2|
    M3 = np.abs(A) @ (np.abs(B) ** 3)
    M1 = np.abs(A) @ np.abs(B) + np.abs(C)
    if spec.get("_poly"):
        M0 = np.abs(A) @ (xsm * xsm + 1.0) + np.abs(C) @ (np.abs(xsm) + 1.0)
        M2 = 2 * np.abs(A)
        M3 = np.zeros_like(M2)
        M1 = 2 * np.abs(A) * (np.abs(xsm)[None, :] + 1.0) + np.abs(C)
    if method == "2-point":
        bound = 0.5 * eps * M2 + 2 * em * (M0[:, None] + M1 * 3) / eps
    elif method == "3-point":
        bound = eps**2 / 6 * M3 + em * (M0[:, None] + M1 * 3) / eps
    else:
        bound = eps**2 / 6 * M3 + 16 * em * (M1 + 1e-300)
    bound = 2 * bound.reshape(fs + xs) + 1e-300
    err = np.abs(np.asarray(got) - np.squeeze(exact))
    ratio = float(np.max(err / np.squeeze(bound)))
    res.ok()
    if not ratio <= 1.0:
        res.fail("fd_accuracy", site, ratio, feats, f"max error/bound = {ratio:.3e}, max err {float(err.max()):.3e}")
    res.nontrivial = len(xs) == 2 or len(fs) == 2
    if spec.get("_poly"):
        res.label("fd:integer_point")
    res.label(f"fd:{method}", "fd:far_from_origin" if np.any(np.abs(X0) >= 1e4) else "fd:near_origin")


def check(spec):
    res = Result()
    kind = spec["kind"]
    res.label(f"kind:{kind}")
    if kind == "fsolve":
        _check_fsolve(spec, res)
    elif kind == "fixed_point":
        _check_fp(spec, res)
    else:
        _check_fd(spec, res)
    return res
