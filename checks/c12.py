"""C12 Rod material laws are hyperelastic with exact tangents."""

import numpy as np
from hypothesis import strategies as st

from harness import gen
from harness.numdiff import jacobian, compare
from harness.runner import Result

PROPERTY = "C12"
LEVEL = "exploration"
RULE = (
    "case = (law in {Simo1986, Harsch2021}, stiffness vectors Ei, Fi log-uniform in [1e-2,1e4] as float arrays or, in one "
    "case of six, small integers passed as integer-typed arrays (as the repository's scripts do); 0-2 earlier "
    "evaluations of the same law object at other reference strains (one object serves all quadrature points); strains B_Gamma, "
    "B_Gamma0, B_Kappa, B_Kappa0 with log-uniform norms over four decades, |B_Gamma| >= 1e-2). Forces/couples are "
    "compared with Richardson differences of the strain energy, tangents with differences of forces/couples, the "
    "complementary energy with the Legendre identity. Non-trivial: | |B_Gamma0| - 1 | > 0.05 and B_Gamma not "
    "parallel to B_Gamma0."
)
ASSUMPTIONS = [
    "differences: step 1e-3*|strain|, Richardson (error O(h^4)); tolerance 1e-6 relative to the natural scale "
    "stiffness*strain (gradient) resp. stiffness*(1+|Gamma0|/|Gamma|) (tangent)",
    "|B_Gamma| >= 1e-2: Harsch2021 is singular at B_Gamma = 0 by definition (division by the stretch)",
]
CASES = {"quick": 3000, "thorough": 200000}
SHARDS = {"quick": 4, "thorough": 16}
TECHNIQUE = "generated strain states and stiffnesses; differential oracle (energy -> forces -> tangents) and Legendre identity"
LEVEL_TEXT = (
    "Generated-input search over strains, reference strains of any length and stiffnesses spanning decades, with "
    "the strain energy as reference for forces and the forces as reference for tangents. Sampling, not proof."
)
LEVEL_NOTE = "trusted: the law's own potential() as primal reference; numpy"


@st.composite
def _case(draw):
    # stiffnesses as the repository's scripts pass them: float arrays, or integer-typed arrays like np.array([5, 1, 1])
    ints = draw(st.integers(0, 5)) == 0
    return {
        "law": draw(st.sampled_from(["Simo1986", "Harsch2021"])),
        "Ei": [draw(st.integers(1, 20)) for _ in range(3)] if ints else [draw(gen.log_uniform(-2, 4)) for _ in range(3)],
        "Fi": [draw(st.integers(1, 20)) for _ in range(3)] if ints and draw(st.booleans()) else [draw(gen.log_uniform(-2, 4)) for _ in range(3)],
        # reference strains at which the same law object was evaluated before (one object serves all quadrature points)
        "warm": [draw(gen.vec3(-1, 1, allow_zero=False)) for _ in range(draw(st.integers(0, 2)))],
        # the caller re-uses its stiffness arrays after constructing the law (scales them in place for the next material)
        "reuse_arrays": draw(st.sampled_from([None, None, None, 0.25, 3.0])),
        "G": draw(gen.vec3(-2, 2, allow_zero=False)),
        "G0": draw(st.one_of(gen.vec3(-2, 2, allow_zero=False), st.just([1.0, 0.0, 0.0]))),
        "K": draw(gen.vec3(-2, 2)),
        "K0": draw(gen.vec3(-2, 2)),
    }


def strategy(tier):
    return _case()


def static_cases(tier):
    return [
        {"law": l, "Ei": [5.0, 1.0, 2.0], "Fi": [0.5, 2.0, 3.0], "G": [1.1, 0.2, -0.1], "G0": g0,
         "K": [0.1, 0.2, 0.3], "K0": [0.0, 0.1, 0.0]}
        for l in ("Simo1986", "Harsch2021") for g0 in ([1.0, 0.0, 0.0], [0.0, 0.0, 2.0], [0.3, 0.4, 0.0])
    ]


def check(spec):
    from cardillo.rods import _material_models as mm

    res = Result()
    Ei = np.array(spec["Ei"])  # integer lists give integer-typed arrays, as in the repository's scripts
    Fi = np.array(spec["Fi"])
    law = getattr(mm, spec["law"])(Ei, Fi)
    # other material laws exist in the same process (a second rod with other stiffnesses, constructed afterwards)
    for other in ("Simo1986", "Harsch2021"):
        getattr(mm, other)(np.array([3.0, 7.0, 11.0]) * 1.7, np.array([0.2, 0.9, 0.4]) * 2.3)
    if spec.get("reuse_arrays") and Ei.dtype == float and Fi.dtype == float:
        Ei *= spec["reuse_arrays"]
        Fi *= spec["reuse_arrays"]
        Ei, Fi = np.array(spec["Ei"], dtype=float), np.array(spec["Fi"], dtype=float)
    Ei, Fi = Ei.astype(float), Fi.astype(float)
    held = []  # (name, returned array, copy at return time): results must not alias buffers that later calls overwrite

    def keep(name, arr):
        if isinstance(arr, np.ndarray):
            held.append((name, arr, arr.copy()))
        return arr
    G, G0, K, K0 = (np.array(spec[k], dtype=float) for k in ("G", "G0", "K", "K0"))
    for Gw in spec.get("warm", []):
        Gw = np.array(Gw, dtype=float)
        law.potential(G, Gw, K, K0), law.B_n(G, Gw, K, K0), law.B_m(G, Gw, K, K0), law.B_n_B_Gamma(G, Gw, K, K0)
    nG, nG0 = float(np.linalg.norm(G)), float(np.linalg.norm(G0))
    feats = {"law": spec["law"], "normG0": nG0}
    site = spec["law"]
    Emax, Fmax = float(Ei.max()), float(Fi.max())
    sG = nG + nG0
    sK = float(np.linalg.norm(K) + np.linalg.norm(K0)) + 1e-3
    hG = 1e-3 * nG
    hK = 1e-3 * sK

    W = lambda g, k: law.potential(g, G0, k, K0)
    n = keep("B_n", law.B_n(G, G0, K, K0))
    m = keep("B_m", law.B_m(G, G0, K, K0))
    for nm in ("B_n_B_Gamma", "B_n_B_Kappa", "B_m_B_Gamma", "B_m_B_Kappa"):
        keep(nm, getattr(law, nm)(G, G0, K, K0))
    # differencing the *sum* of both energy parts: the round-off of the larger part, ulp(W)/h, must stay two
    # orders below the tolerance, otherwise the comparison is inconclusive (never a violation)
    W0 = abs(W(G, K))
    noise = lambda h: 16 * np.spacing(W0) / h
    if noise(hG) > 1e-2 * 1e-6 * Emax * sG:
        res.inconclusive += 1
    else:
        num, dis = jacobian(lambda g: W(g, K), G, hG)
        compare(res, "force_is_gradient", site + ".B_n", n, num, dis, feats, tol=1e-6, scale=Emax * sG)
    if noise(hK) > 1e-2 * 1e-6 * Fmax * sK:
        res.inconclusive += 1
    else:
        num, dis = jacobian(lambda k: W(G, k), K, hK)
        compare(res, "couple_is_gradient", site + ".B_m", m, num, dis, feats, tol=1e-6, scale=Fmax * sK)

    sT = Emax * (1.0 + nG0 / nG)
    num, dis = jacobian(lambda g: law.B_n(g, G0, K, K0), G, hG)
    compare(res, "tangent", site + ".B_n_B_Gamma", law.B_n_B_Gamma(G, G0, K, K0), num, dis, feats, tol=1e-6, scale=sT)
    num, dis = jacobian(lambda k: law.B_n(G, G0, k, K0), K, hK)
    compare(res, "tangent", site + ".B_n_B_Kappa", law.B_n_B_Kappa(G, G0, K, K0), num, dis, feats, tol=1e-6,
            scale=Emax * sG / sK + 1e-300)
    num, dis = jacobian(lambda g: law.B_m(g, G0, K, K0), G, hG)
    compare(res, "tangent", site + ".B_m_B_Gamma", law.B_m_B_Gamma(G, G0, K, K0), num, dis, feats, tol=1e-6,
            scale=Fmax * sK / nG)
    num, dis = jacobian(lambda k: law.B_m(G, G0, k, K0), K, hK)
    compare(res, "tangent", site + ".B_m_B_Kappa", law.B_m_B_Kappa(G, G0, K, K0), num, dis, feats, tol=1e-6, scale=Fmax)

    # stress-free at the reference strain
    res.ok()
    n0 = law.B_n(G0, G0, K0, K0)
    m0 = law.B_m(G0, G0, K0, K0)
    if np.max(np.abs(n0)) > 1e-12 * Emax * (nG0 + 1e-300) or np.max(np.abs(m0)) > 0 or abs(law.potential(G0, G0, K0, K0)) > 1e-20 * Emax * nG0**2:
        res.fail("stress_free_at_reference", site, float(max(np.max(np.abs(n0)), np.max(np.abs(m0)))), feats)

    if hasattr(law, "complementary_potential"):
        Wc = law.complementary_potential(n, m)
        lhs = Wc + W(G, K)
        rhs = n @ (G - G0) + m @ (K - K0)
        sc = Emax * sG**2 + Fmax * sK**2
        res.ok()
        if abs(lhs - rhs) > 1e-12 * sc:
            res.fail("legendre", site + ".complementary_potential", abs(lhs - rhs), feats)
        res.ok()
        e = max(np.max(np.abs(law.C_n_inv @ law.C_n - np.eye(3))), np.max(np.abs(law.C_m_inv @ law.C_m - np.eye(3))))
        if e > 1e-12:
            res.fail("legendre", site + ".compliance_matrices", e, feats)
        # n, m are recovered from the complementary energy's gradient: C^-1 n = Gamma - Gamma0
        res.ok()
        e = max(np.max(np.abs(law.C_n_inv @ n - (G - G0))) / sG, np.max(np.abs(law.C_m_inv @ m - (K - K0))) / sK)
        if e > 1e-11 * (Emax / Ei.min() + Fmax / Fi.min()):
            res.fail("legendre", site + ".compliance_recovers_strain", e, feats)

    # results handed out earlier keep their values when the law is evaluated again elsewhere
    G2, K2 = 0.7 * G + 0.1 * nG, K - 0.3 * sK
    for nm in ("B_n", "B_m", "B_n_B_Gamma", "B_n_B_Kappa", "B_m_B_Gamma", "B_m_B_Kappa"):
        getattr(law, nm)(G2, G0, K2, K0)
    res.ok()
    for nm, arr, cp in held:
        if not np.array_equal(arr, cp):
            res.fail("returned_value_overwritten_by_later_call", site + "." + nm, float(np.max(np.abs(arr - cp))), feats)
            break

    cosang = abs(G @ G0) / (nG * nG0)
    res.nontrivial = abs(nG0 - 1.0) > 0.05 and cosang < 0.999
    res.label(spec["law"])
    res.label("|G0|!=1" if abs(nG0 - 1.0) > 0.05 else "|G0|=1")
    res.label("stiffness:int_array" if isinstance(spec["Ei"][0], int) else "stiffness:float_array", f"earlier_reference_strains:{len(spec.get('warm', []))}")
    return res
