"""C07 Force elements are energetically consistent and passive."""

import numpy as np
from hypothesis import strategies as st

from harness import gen, build, sysbuild, rodbuild
from harness.numdiff import directional
from harness.runner import Result
from checks import c08

PROPERTY = "C07"
LEVEL = "exploration"
RULE = (
    "case = two subsystems (fixed Frame / PointMass / RigidBody) + TwoPointInteraction with offsets, or Revolute "
    "between Frame/RigidBody and RigidBody evaluated on its joint manifold (body 2 rotated about the joint axis by a "
    "generated angle, velocities composed so that g = g_dot = 0) + one element: constant Force on a body, Spring / "
    "KelvinVoigtElement (force and compliance form), MaxwellElement; or a rod with a line-distributed load "
    "(every rod formulation; load constant, ramped in time or varying along the rod, evaluated at 1-3 load times in "
    "sequence on the same assembled system). State along the kinematic flow with random u. Rigid bodies carry gyroscopic forces, "
    "which enter the power sum. Non-trivial: the element is stretched and moving (|l-l_ref|, |l_dot| > 1e-3)."
)
ASSUMPTIONS = [
    "power balance at frozen load time: u.(h + W_c la_c) = -d/d eps E_pot(t, q + eps q_dot) for conservative elements "
    "(Force, Spring, line load); gyroscopic forces of the rigid bodies are part of h and must contribute zero power",
    "passivity for KelvinVoigtElement and MaxwellElement: power + stored-energy rate <= 1e-9*scale (the Maxwell "
    "element's internal coordinate moves with its own kinematic equation); frames are fixed so no energy enters "
    "through prescribed motion",
    "compliance form: c(t,q,u,la_c(t,q,u)) = 0 and W_c la_c equals h of the force form built on a twin system",
    "tolerance 1e-6*(1+|power|) for the differenced energy rate",
]
CASES = {"quick": 500, "thorough": 20000}
SHARDS = {"quick": 8, "thorough": 16}
TECHNIQUE = "generated element x interaction x on-manifold state; power vs differenced energy along the kinematic flow, sign predicate for dissipative laws, twin-system differential for compliance form"
LEVEL_TEXT = (
    "Generated-input search with an energy-rate oracle (differenced E_pot along the kinematic flow), a sign "
    "predicate for dissipative elements and a twin-system comparison of force and compliance form. Sampling."
)
LEVEL_NOTE = "trusted: System.E_pot as primal reference for the power; System.q_dot"


def _quat_mul(a, b):
    return np.array([a[0] * b[0] - a[1:] @ b[1:], *(a[0] * b[1:] + b[0] * a[1:] + np.cross(a[1:], b[1:]))])


@st.composite
def _case(draw):
    kind = draw(st.sampled_from(["tpi", "tpi", "revolute", "revolute", "force", "lineload"]))
    if kind == "lineload":
        return {"inter": "lineload", "t0": 0.0, "rod": draw(rodbuild.rod_spec(max_nel=3)),
                "f": draw(gen.vec3(-1, 1, allow_zero=False)),
                # load f * (a + b t) * (1 + c xi): constant, ramped in time and/or varying along the rod; evaluated at
                # several times in sequence on the same assembled system (load stepping)
                "ramp": draw(st.sampled_from([[1.0, 0.0, 0.0], [0.0, 1.0, 0.0], [0.3, 0.7, 0.5], [1.0, -0.5, -0.8]])),
                "times": [draw(gen.f(0.0, 2.0)) for _ in range(draw(st.integers(1, 3)))],
                "dr": [draw(gen.f(-1, 1)) for _ in range(9)], "dp": [draw(gen.f(-1, 1)) for _ in range(8)],
                "scales": [draw(gen.f(0.8, 1.25)) for _ in range(5)], "u": [draw(gen.f(-2, 2)) for _ in range(11)]}
    spec = {"inter": kind if kind != "force" else "load", "t0": 0.0}
    if kind == "force":
        k = draw(st.sampled_from(["rigid", "rigid", "point"]))
        spec["bodies"] = [draw(build.rigid_body()) if k == "rigid" else draw(build.point_mass())]
        spec["load"] = {"type": "Force", "f0": draw(gen.vec3(-1, 1, allow_zero=False)),
                        "B_r_CP": draw(gen.vec3(-2, 0)) if k == "rigid" else [0.0] * 3}
    else:
        es = {"type": draw(st.sampled_from(c08.LAWS)), "k": draw(gen.f(0.5, 50.0)), "d": draw(gen.f(0.1, 10.0)),
              "compliance": draw(st.booleans()), "l_ref": draw(gen.f(0.2, 3.0)) if draw(st.booleans()) else None}
        if es["type"] == "Maxwell":
            es["l_d0"] = draw(gen.f(-0.5, 0.5))
        spec["element"] = es
        if kind == "tpi":
            bs = []
            for _ in range(2):
                k = draw(st.sampled_from(["rigid", "rigid", "point", "frame"]))
                bs.append(draw(build.rigid_body()) if k == "rigid" else draw(build.point_mass()) if k == "point"
                          else draw(build.frame_body(moving=False, rotating=False)))
            if bs[0]["kind"] == "frame" and bs[1]["kind"] == "frame":
                bs[1] = draw(build.rigid_body())
            d = np.array(draw(gen.unit_vec3())) * draw(gen.f(2.0, 4.0))
            for b, sh in zip(bs, (-0.5 * d, 0.5 * d)):
                if b["kind"] == "frame":
                    b["motion"]["c0"] = sh.tolist()
                else:
                    b["r"] = sh.tolist()
            spec["bodies"] = bs
            spec["tpi"] = {"B1": draw(gen.vec3(-2, -0.5)), "B2": draw(gen.vec3(-2, -0.5))}
        else:
            b1 = draw(st.one_of(build.rigid_body(unit=True), build.frame_body(moving=False, rotating=False)))
            spec["bodies"] = [b1, draw(build.rigid_body(unit=True))]
            spec["joint"] = {"type": "Revolute", "axis": draw(st.integers(0, 2)), "angle0": draw(gen.f(-3, 3)),
                             "r_OJ0": [draw(gen.f(-1, 1)) for _ in range(3)],
                             "psi_J": draw(gen.rotvec(min_exp=-2, near_max=False))}
            spec["phi"] = draw(gen.f(-1.4, 1.4))
            spec["phi_dot"] = draw(gen.f(-3, 3))
    spec["t"] = 0.0
    spec["dq"] = [draw(gen.f(-0.3, 0.3)) for _ in range(16)]
    spec["u"] = [draw(gen.f(-2, 2)) for _ in range(12)]
    spec["la_c"] = 0.0
    spec["q_int"] = draw(gen.f(-1, 1))
    return spec


def strategy(tier):
    return _case()


def manifold_state(spec, system, inter):
    """Revolute: rotate body 2 about the joint axis by phi and compose velocities so that g = g_dot = 0."""
    q = system.q0.copy()
    u = np.zeros(system.nu)
    s1, s2 = inter.subsystem1, inter.subsystem2
    t0 = system.t0
    # joint frame in the world at assembly
    r_J = np.asarray(inter.r_OJ0, dtype=float)
    A_IJ = np.asarray(inter.A_IJ0, dtype=float)
    e = A_IJ[:, spec["joint"]["axis"]]
    phi, phid = spec["phi"], spec["phi_dot"]
    if len(s1.q0):
        u1 = np.array(spec["u"][:6], dtype=float)
        u[s1.uDOF] = u1
        R1 = gen.quat_to_R(q[s1.qDOF][3:])
        v1, w1 = u1[:3], R1 @ u1[3:]
        r1 = q[s1.qDOF][:3]
    else:
        v1 = w1 = np.zeros(3)
        r1 = np.zeros(3)
    q2 = q[s2.qDOF]
    Rphi = gen._exp(e * phi)
    r2 = r_J + Rphi @ (q2[:3] - r_J)
    P2 = _quat_mul(np.concatenate([[np.cos(phi / 2)], np.sin(phi / 2) * e]), q2[3:])
    q[s2.qDOF] = np.concatenate([r2, P2])
    w2 = w1 + phid * e
    vJ = v1 + np.cross(w1, r_J - r1)
    v2 = vJ + np.cross(w2, r2 - r_J)
    R2 = gen.quat_to_R(P2)
    u[s2.uDOF] = np.concatenate([v2, R2.T @ w2])
    return q, u


def _lineload(spec, res):
    from cardillo.rods.force_line_distributed import Force_line_distributed

    rs = spec["rod"]
    site = "Force_line_distributed"
    feats = {"element": site, "formulation": rodbuild.formulation_name(rs)}
    f0 = np.array(spec["f"], dtype=float)
    a, b, c = spec.get("ramp", [1.0, 0.0, 0.0])
    times = spec.get("times", [0.0])
    f = f0 if (b == 0.0 and c == 0.0) else (lambda t, xi: f0 * (a + b * t) * (1.0 + c * xi))
    if not callable(f):
        f = a * f0
    systems = []
    for with_load in (True, False):
        system = sysbuild.new_system(0.0)
        rod, Q = rodbuild.make_rod(rs)
        system.add(rod)
        if with_load:
            system.add(Force_line_distributed(f, rod))
        sysbuild.assemble(system)
        systems.append(system)
    sysl, sys0 = systems
    q = rodbuild.perturb(rs, Q, spec["dr"], spec["dp"], spec["scales"])
    u = np.array((spec["u"] * (sysl.nu // 11 + 1))[: sysl.nu], dtype=float)
    qd = sysl.q_dot(0.0, q, u)
    power = 0.0
    for t in times:
        # evaluating the total potential energy of the assembled system succeeds (an exception is a failure 'raises')
        E = sysl.E_pot(t, q)
        res.ok()
        if not np.isfinite(E):
            res.fail("epot_evaluates", site, None, feats, repr(E))
        # the potential may depend on time explicitly; the force does the work of its configuration gradient
        power = float((sysl.h(t, q, u) - sys0.h(t, q, u)) @ u)
        dE, dis = directional(lambda e: sysl.E_pot(t, q + e * qd) - sys0.E_pot(t, q + e * qd), 1e-3)
        scale = 1.0 + abs(power)
        if dis > 1e-7 * scale:
            res.inconclusive += 1
        else:
            res.ok()
            if abs(power + float(dE)) > 1e-6 * scale:
                res.fail("power_balance", site, abs(power + float(dE)), feats,
                         f"t={t:.4f} (evaluation {times.index(t) + 1} of {len(times)}): power={power:.6e} dE/dt={float(dE):.6e}")
                break
    # the load's resultant is the force per reference length times the reference length
    res.nontrivial = abs(power) > 1e-3
    res.label(site, rodbuild.formulation_name(rs), "load:" + ("constant" if not callable(f) else "time_or_xi_dependent"),
              f"load_evaluations:{len(times)}")
    return res


def check(spec):
    res = Result()
    D = sysbuild.dense
    if spec["inter"] == "lineload":
        return _lineload(spec, res)
    system, el, inter = c08.build_case(spec)
    site = c08.element_site(spec)
    feats = {"element": site, "pair": "+".join(b["kind"] for b in spec["bodies"])}
    t = system.t0
    if spec["inter"] == "revolute":
        q, u = manifold_state(spec, system, inter)
        g = system.g(t, q)
        gd = system.g_dot(t, q, u)
        if max(np.max(np.abs(g)), np.max(np.abs(gd))) > 1e-9:
            raise AssertionError(f"harness: state not on the joint manifold: {np.max(np.abs(g)):.2e} {np.max(np.abs(gd)):.2e}")
        system.reset()
        # walk the branch tracking from the initial configuration to the evaluation state
        for s in np.linspace(0, 1, 7):
            qs, _ = manifold_state(dict(spec, phi=spec["phi"] * s), system, inter)
            inter.l(t, qs[inter.qDOF])
    else:
        _, q, u, _ = c08.eval_state(spec, system, el)
    if hasattr(el, "my_qDOF") and el.__class__.__name__ == "MaxwellElement":
        q[el.my_qDOF] = spec["q_int"]
    qd = system.q_dot(t, q, u)

    # evaluating the total potential energy succeeds
    E = system.E_pot(t, q)
    res.ok()
    if not np.isfinite(E):
        res.fail("epot_evaluates", site, None, feats, repr(E))

    la_c = system.la_c(t, q, u) if system.nla_c else np.zeros(0)
    gen_force = system.h(t, q, u) + (D(system.W_c(t, q)) @ la_c if system.nla_c else 0.0)
    power = float(gen_force @ u)
    dE, dis = directional(lambda e: system.E_pot(t, q + e * qd), 1e-3)
    dE = float(dE)
    scale = 1.0 + abs(power) + abs(dE)
    etype = spec["element"]["type"] if "element" in spec else "Force"
    if dis > 1e-7 * scale:
        res.inconclusive += 1
    elif etype in ("Spring", "Force"):
        res.ok()
        if abs(power + dE) > 1e-6 * scale:
            res.fail("power_balance", site, abs(power + dE), feats, f"power={power:.6e} dE/dt={dE:.6e}")
    else:
        res.ok()
        if power + dE > 1e-6 * scale:
            res.fail("passive", site, power + dE, feats, f"power={power:.6e} dE/dt={dE:.6e}")
        # the dissipated power is exactly what the law predicts
        if inter is not None:
            ql, ul = q[inter.qDOF], u[inter.uDOF]
            l, ld = float(inter.l(t, ql)), float(inter.l_dot(t, ql, ul))
            if etype == "KelvinVoigt":
                want = -spec["element"]["d"] * ld * ld
            else:
                k, eta = spec["element"]["k"], spec["element"]["d"]
                want = -(k * (l - float(q[el.my_qDOF][0]) - el.l_ref)) ** 2 / eta
            res.ok()
            if abs(power + dE - want) > 1e-6 * (scale + abs(want)):
                res.fail("dissipation_matches_law", site, abs(power + dE - want), feats)

    # compliance form describes the same force as the force form
    if system.nla_c:
        c = system.c(t, q, u, la_c)
        res.ok()
        if np.max(np.abs(c)) > 1e-10 * (1 + np.max(np.abs(la_c)) / spec["element"]["k"]):
            res.fail("compliance_residual_vanishes_at_force_form_force", site, float(np.max(np.abs(c))), feats)
        twin, el2, inter2 = c08.build_case(spec, compliance=False)
        if spec["inter"] == "revolute":
            twin.reset()
            for s in np.linspace(0, 1, 7):
                qs, _ = manifold_state(dict(spec, phi=spec["phi"] * s), twin, inter2)
                inter2.l(t, qs[inter2.qDOF])
        h2 = twin.h(t, q, u)
        res.ok()
        if np.max(np.abs(h2 - gen_force)) > 1e-10 * (1 + np.max(np.abs(h2))):
            res.fail("compliance_form_equals_force_form", site, float(np.max(np.abs(h2 - gen_force))), feats)

    active = True
    if "element" in spec:
        ql, ul = q[inter.qDOF], u[inter.uDOF]
        lref = el.l_ref if el.l_ref is not None else 0.0
        active = abs(float(inter.l(t, ql)) - lref) > 1e-3 and abs(float(inter.l_dot(t, ql, ul))) > 1e-3
    res.nontrivial = bool(active)
    res.label(site, "pair:" + feats["pair"])
    return res
