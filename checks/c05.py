"""C05 Joint constraints obey the kinematic hierarchy."""

import numpy as np
from hypothesis import strategies as st

from harness import gen, build, sysbuild, rodbuild
from harness.numdiff import jacobian, directional, compare
from harness.runner import Result

PROPERTY = "C05"
LEVEL = "exploration"
RULE = (
    "case = joint type in {Spherical, RigidConnection, Revolute, Prismatic, Cylindrical, Planarizer (axis 0..2), "
    "FixedDistance (with body-fixed offsets)} x ordered pair of subsystems from {fixed Frame, moving/rotating Frame "
    "with analytic derivatives, PointMass (Spherical/FixedDistance only), RigidBody, rod cross-section (every rod "
    "formulation; xi nodal or interior)} x joint placement (r_OJ0, A_IJ0 given or defaulted) x evaluation state "
    "(t, q = q0 + perturbation incl. non-unit quaternions, i.e. violating the joint, u, u_dot, multipliers). All "
    "quantities through the System API. Non-trivial: both subsystems have coordinates or one is a moving frame, "
    "and |g| > 1e-3 at the evaluation state."
)
ASSUMPTIONS = [
    "time-derivative clauses are differenced along eps -> (t+eps, q+eps q_dot, u+eps u_dot); tolerance 1e-6*(1+max|value|)",
    "rod cross-sections: the time-derivative clauses are asserted at nodal xi only (Petrov-Galerkin rods interpolate "
    "velocities independently of poses, so v_P = d/dt r_OP holds at nodes only, as C11 states); partial-derivative "
    "clauses are asserted at every xi",
    "R12 rod cross-sections are used at nodal xi only: between nodes the R12 orientation is not a rotation by design, "
    "so 'satisfied at definition' cannot hold exactly for a joint frame placed there",
    "a PointMass has no extent: a Spherical joint on a point mass is placed at the point mass (r_OJ0 = its position); "
    "FixedDistance between coincident points is rejected by the code (ValueError) and not counted",
    "the system is assembled without the consistency solve (velocities of moving frames need not match the bodies'), "
    "which does not change any joint routine",
]
CASES = {"quick": 500, "thorough": 20000}
SHARDS = {"quick": 8, "thorough": 16}
TECHNIQUE = "generated joint x subsystem-pair x placement x off-manifold state; hierarchy differenced along the kinematic flow, Richardson partials, through System"
LEVEL_TEXT = (
    "Generated-input search over the joint/subsystem grid with off-manifold, non-unit states; each level of the "
    "constraint hierarchy is the reference for the next and every Jacobian is compared with differences. Sampling."
)
LEVEL_NOTE = "trusted: System.g as primal reference; body kinematics (subject of C04/C11)"

JOINTS = ["Spherical", "RigidConnection", "Revolute", "Prismatic", "Cylindrical", "Planarizer", "FixedDistance"]


@st.composite
def _subsystem(draw, allow_point, allow_rod=True):
    kinds = ["rigid", "rigid", "rigid", "frame_fixed", "frame_moving"] + (["point"] if allow_point else [])
    if allow_rod:
        kinds += ["rod", "rod"]
    k = draw(st.sampled_from(kinds))
    if k == "rod":
        rs = draw(rodbuild.rod_spec(max_nel=2, allow_constraints=False))
        n = rodbuild.nnodes(rs)
        # R12 interpolates directors linearly: away from the nodes A_IB is not a rotation (C11 claims the rotation
        # property for Quaternion and SE3 only), so a joint frame cannot be attached exactly there
        nodal = True if rs["interp"] == "R12" else draw(st.booleans())
        xi = draw(st.integers(0, n - 1)) / (n - 1) if nodal else draw(gen.f(0.02, 0.98))
        return {"kind": "rod", "rod": rs, "xi": float(xi), "nodal": nodal}
    if k == "rigid":
        return draw(build.rigid_body())
    if k == "point":
        return draw(build.point_mass())
    if k == "frame_fixed":
        return draw(build.frame_body(moving=False, rotating=False))
    return draw(build.frame_body(moving=True, rotating=draw(st.booleans())))


@st.composite
def _case(draw):
    jt = draw(st.sampled_from(JOINTS))
    allow_point = jt in ("Spherical", "FixedDistance")
    b1 = draw(_subsystem(allow_point))
    b2 = draw(_subsystem(allow_point, allow_rod=b1["kind"] != "rod"))
    if b1["kind"] == "frame" and b2["kind"] == "frame":
        b2 = draw(build.rigid_body())
    js = {"type": jt}
    if jt in ("Revolute", "Prismatic", "Cylindrical", "Planarizer"):
        js["axis"] = draw(st.integers(0, 2))
    if jt == "Revolute":
        js["angle0"] = draw(gen.f(-3.0, 3.0))
    if jt == "FixedDistance":
        js["B1"] = draw(gen.vec3(-2, 0))
        js["B2"] = draw(gen.vec3(-2, 0))
    else:
        js["r_OJ0"] = [draw(gen.f(-2, 2)) for _ in range(3)] if (jt == "Spherical" or draw(st.booleans())) else None
        if jt != "Spherical":
            js["psi_J"] = draw(gen.rotvec(min_exp=-2, near_max=False)) if draw(st.booleans()) else None
    if jt == "Spherical":
        # a point mass has no extent: a spherical joint on it sits at the point mass itself
        pts = [b for b in (b1, b2) if b["kind"] == "point"]
        if pts:
            js["r_OJ0"] = list(pts[0]["r"])
            for b in pts[1:]:
                b["r"] = list(pts[0]["r"])
    if b1["kind"] == "rod":
        js["xi1"] = b1["xi"]
    if b2["kind"] == "rod":
        js["xi2"] = b2["xi"]
    return {
        "t0": draw(gen.f(0.0, 1.0)),
        "bodies": [b1, b2],
        "joint": js,
        "t": draw(gen.f(0.0, 2.0)),
        "dq": [draw(gen.f(-0.5, 0.5)) for _ in range(14)],
        "u": [draw(gen.f(-2, 2)) for _ in range(12)],
        "u_dot": [draw(gen.f(-2, 2)) for _ in range(12)],
        "la": [draw(gen.f(-2, 2)) for _ in range(6)],
        "on_manifold": draw(st.integers(0, 9)) == 0,
    }


def strategy(tier):
    return _case()


def build_case(spec):
    system = sysbuild.new_system(spec["t0"])
    mk = lambda b, name: rodbuild.make_rod(b["rod"], name=name)[0] if b["kind"] == "rod" else build.make_body(b, name=name)
    s1 = mk(spec["bodies"][0], "s1")
    s2 = mk(spec["bodies"][1], "s2")
    joint = sysbuild.make_joint(spec["joint"], s1, s2)
    system.add(s1, s2, joint)
    sysbuild.assemble(system)
    return system, s1, s2, joint


def hierarchy(res, system, t, q, u, ud, la, site, feats, time_clauses=True, prefix=""):
    """Shared with other checks: constraint hierarchy and Jacobians through the System API."""
    D = sysbuild.dense
    qd = system.q_dot(t, q, u)
    hq = build.fd_steps(q, sysbuild.quat_slices(system))
    for c in system.contributions:
        if hasattr(c, "nodalDOF_p"):  # rod: per-node quaternion steps
            for nd in c.nodalDOF_p:
                idx = c.qDOF[nd]
                hq[idx] = 1e-3 * max(float(np.linalg.norm(q[idx])), 1e-12)
    hu = build.fd_steps(u)

    def cmp(sub, analytic, num, dis):
        compare(res, prefix + sub, site, analytic, num, dis, feats, tol=1e-6)

    if time_clauses:
        num, dis = directional(lambda e: system.g(t + e, q + e * qd), 1e-3)
        cmp("g_dot_is_time_derivative_of_g", system.g_dot(t, q, u), num, dis)
        num, dis = directional(lambda e: system.g_dot(t + e, q + e * qd, u + e * ud), 1e-3)
        cmp("g_ddot_is_time_derivative_of_g_dot", system.g_ddot(t, q, u, ud), num, dis)
    if system.nu:
        num, dis = jacobian(lambda u_: system.g_dot(t, q, u_), u, hu)
        cmp("W_g_is_transposed_dg_dot_du", D(system.W_g(t, q)).T, num, dis)
        cmp("g_dot_u", D(system.g_dot_u(t, q)), num, dis)
    if system.nq:
        num, dis = jacobian(lambda q_: system.g(t, q_), q, hq)
        cmp("g_q", D(system.g_q(t, q)), num, dis)
        num, dis = jacobian(lambda q_: system.g_dot(t, q_, u), q, hq)
        cmp("g_dot_q", D(system.g_dot_q(t, q, u)), num, dis)
        num, dis = jacobian(lambda q_: D(system.W_g(t, q_)) @ la, q, hq)
        cmp("Wla_g_q", D(system.Wla_g_q(t, q, la)), num, dis)


def check(spec):
    res = Result()
    jt = spec["joint"]["type"]
    try:
        system, s1, s2, joint = build_case(spec)
    except ValueError as e:
        if jt == "FixedDistance" and "close to zero" in str(e):
            # documented rejection of a degenerate definition (coincident points), not a case of the property
            res.label("degenerate_fixed_distance_rejected")
            return res
        raise
    def kname(b):
        if b["kind"] == "frame":
            return "frame_moving" if "c1" in b["motion"] else "frame_fixed"
        if b["kind"] == "rod":
            return "rod[" + b["rod"]["interp"] + ("" if b["nodal"] else ",interior") + "]"
        return b["kind"]

    k1, k2 = (kname(b) for b in spec["bodies"])
    site = f"{jt}x({k1},{k2})"
    feats = {"joint": jt, "s1": k1, "s2": k2}
    t0 = system.t0
    # satisfied in the configuration in which it was defined
    g0 = system.g(t0, system.q0)
    res.ok()
    if np.max(np.abs(g0)) > 1e-10:
        res.fail("satisfied_at_definition", site, float(np.max(np.abs(g0))), feats)
    nq, nu = system.nq, system.nu
    if spec["on_manifold"]:
        t, q = t0, system.q0.copy()
    else:
        t = float(spec["t"])
        q = system.q0 + np.array((spec["dq"] * (nq // 14 + 1))[:nq], dtype=float) * (0.4 if any(
            b["kind"] == "rod" for b in spec["bodies"]) else 1.0)
    u = np.array((spec["u"] * (nu // 12 + 1))[:nu], dtype=float)
    ud = np.array((spec["u_dot"] * (nu // 12 + 1))[:nu], dtype=float)
    la = np.array(spec["la"][: system.nla_g], dtype=float)
    # Petrov-Galerkin rods: velocities are interpolated independently of poses, the time-derivative clauses hold
    # at nodal cross-sections only (see ASSUMPTIONS)
    interior_rod = any(b["kind"] == "rod" and not b["nodal"] for b in spec["bodies"])
    hierarchy(res, system, t, q, u, ud, la, site, feats, time_clauses=not interior_rod)
    # the same clauses at a second velocity / acceleration / multiplier at the *same* (t, q): bodies and joints memoise
    # kinematic quantities per configuration, and a velocity-dependent one keyed on (t, q) alone would be served stale
    hierarchy(res, system, t, q, -0.6 * u[::-1] + 0.3, 0.8 * ud[::-1] - 0.1, la[::-1] * 0.5 + 0.2, site, feats,
              time_clauses=not interior_rod)
    gabs = float(np.max(np.abs(system.g(t, q))))
    moving = any(k == "frame_moving" for k in (k1, k2))
    both = all(k in ("rigid", "point") or k.startswith("rod") for k in (k1, k2))
    res.nontrivial = (both or moving) and gabs > 1e-3
    res.label(f"joint:{jt}", f"pair:{k1}+{k2}", "off_manifold" if gabs > 1e-3 else "on_manifold")
    return res
