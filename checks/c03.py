"""C03 SO(3)/SE(3) derivative routines are the derivatives of their maps."""

import math

import numpy as np
from hypothesis import strategies as st

from harness import gen, mpref
from harness.numdiff import jacobian, compare
from harness.runner import Result

PROPERTY = "C03"
LEVEL = "exploration"
RULE = (
    "case = (psi, psi_dot, r, P): psi with norm log-uniform in [1e-9,pi) or, a third of the time, [1e-30,pi) (plus 0, uniform, pi-10^-k), psi_dot and "
    "r in R^3, P a scaled quaternion. Every derivative routine is compared with the derivative of its map taken "
    "in 40-digit mpmath arithmetic (central differences with step 1e-12, truncation error ~1e-24), the map being "
    "re-implemented from its mathematical definition. Non-trivial: |psi|>0 and not axis-aligned; cases are "
    "classified by decade of |psi|."
)
ASSUMPTIONS = [
    "absolute tolerance 1e-6 * (1 + max|reference|) ('small absolute tolerance' of the statement)",
    "Log_SO3_A / Log_SE3_H are contracted with tangent directions A*skew(e_k) of SO(3) (the maps are only "
    "defined on the group); the reference is d/d eps Log(A Exp(eps e_k))",
    "the quaternion tangent maps are rational; their derivative routines are compared with Richardson differences "
    "in float64 (relative 1e-6)",
    "|psi| = pi itself is outside the domain (the statement says |psi| < pi)",
]
CASES = {"quick": 600, "thorough": 30000}
SHARDS = {"quick": 6, "thorough": 16}
TECHNIQUE = "generated rotation vectors (log-uniform down to 1e-30) vs 40-digit mpmath derivative of the re-implemented map"
LEVEL_TEXT = (
    "Generated-input search with a high-precision differential oracle that is independent of float cancellation "
    "in the code's own primal routines; covers every decade of |psi| from 1e-30 to pi. Sampling, not proof."
)
LEVEL_NOTE = "trusted: mpmath, the harness re-implementation of the maps (harness/mpref.py)"


@st.composite
def _case(draw):
    return {
        # norms down to 1e-30: relative rotations at rounding level (1e-17 ... 1e-22 between the nodes of a nearly
        # straight rod) are what the SE(3) rod feeds these routines
        "psi": draw(gen.rotvec(min_exp=draw(st.sampled_from([-9, -9, -30])))),
        "psi_dot": draw(gen.vec3(-2, 1, allow_zero=False)),
        "r": draw(gen.vec3(-2, 1)),
        "P": draw(gen.quat(-2, 2)),
        # arguments as fresh arrays, or as views into a work buffer that is overwritten between calls (q[3:], h[3:])
        "call": draw(st.sampled_from(["fresh", "fresh", "buffer"])),
    }


def strategy(tier):
    return _case()


def static_cases(tier):
    out = []
    for k in list(range(0, 10)) + [12, 16, 17, 21, 30]:
        a = 10.0 ** (-k) * (1.0 if k < 10 else 1.6333319337652043)
        out.append({"psi": [0.6 * a, 0.0, 0.8 * a], "psi_dot": [0.3, -0.5, 0.2], "r": [1.0, 0.5, -0.25],
                    "P": [0.5, -0.5, 0.5, 0.5]})
    out.append({"psi": [0.0, 0.0, 0.0], "psi_dot": [0.3, -0.5, 0.2], "r": [1.0, 0.5, -0.25], "P": [2.0, 0.0, 0.0, 0.0]})
    return out


def check(spec):
    import mpmath as mp
    from cardillo.math import rotations as _rot
    from harness.callconv import Proxy

    rot = Proxy(_rot, spec.get("call", "fresh"))

    res = Result()
    psi = np.array(spec["psi"], dtype=float)
    pd = np.array(spec["psi_dot"], dtype=float)
    r = np.array(spec["r"], dtype=float)
    P = np.array(spec["P"], dtype=float)
    a = float(np.linalg.norm(psi))
    feats = {"angle": a, "pi_minus_angle": math.pi - a}
    mpsi = mpref.mpv(psi)

    def cmp(site, analytic, reference):
        analytic = np.asarray(analytic, dtype=float)
        reference = np.asarray(reference, dtype=float)
        res.ok()
        if analytic.shape != reference.shape:
            res.fail("derivative", site, None, feats, f"shape {analytic.shape} vs {reference.shape}")
            return
        tol = 1e-6 * (1.0 + float(np.max(np.abs(reference))))
        err = float(np.max(np.abs(analytic - reference))) if np.all(np.isfinite(analytic)) else float("inf")
        if err > tol:
            res.fail("derivative", site, err, feats, f"err={err:.3e} tol={tol:.1e} angle={a:.3e}")

    # the closed-form derivatives, at psi and then at a second rotation vector 0.6 psi (consecutive evaluations, as a
    # Newton iteration or a work buffer that is rescaled in place produces them)
    psi_first, mpsi_first = psi, mpsi
    for psi, mpsi in ((psi_first, mpsi_first), (0.6 * psi_first, mpref.mpv(0.6 * psi_first))):
        # Exp_SO3_psi
        cmp("Exp_SO3_psi", rot.Exp_SO3_psi(psi), mpref.diff_array(mpref.exp_so3, mpsi))
        # T_SO3_psi
        cmp("T_SO3_psi", rot.T_SO3_psi(psi), mpref.diff_array(mpref.t_so3, mpsi))
        # T_SO3_inv_psi
        cmp("T_SO3_inv_psi", rot.T_SO3_inv_psi(psi), mpref.diff_array(mpref.t_so3_inv, mpsi))
        # T_SO3_dot = d/dt T_SO3(psi + t psi_dot)
        mpd = mpref.mpv(pd)
        h = mp.mpf(10) ** (-12) * max(1, mpref.norm(mpsi)) / max(1, mpref.norm(mpd))
        Tp = mpref.t_so3([x + h * y for x, y in zip(mpsi, mpd)])
        Tm = mpref.t_so3([x - h * y for x, y in zip(mpsi, mpd)])
        cmp("T_SO3_dot", rot.T_SO3_dot(psi, pd), mpref.to_np((Tp - Tm) / (2 * h)))
        # Exp_SE3_h
        hh = np.concatenate([r, psi])
        mh = mpref.mpv(hh)
        cmp("Exp_SE3_h", rot.Exp_SE3_h(hh), mpref.diff_array(mpref.exp_se3, mh))
    psi, mpsi = psi_first, mpsi_first
    hh = np.concatenate([r, psi])
    mh = mpref.mpv(hh)

    # Log_SO3_A on the tangent space of SO(3)
    A = mpref.exp_so3(mpsi)
    Af = mpref.to_np(A)
    LA = rot.Log_SO3_A(Af)
    he = mp.mpf(10) ** (-12)
    ana = np.zeros((3, 3))
    ref = np.zeros((3, 3))
    H = mpref.exp_se3(mh)
    Hf = mpref.to_np(H)
    LH = rot.Log_SE3_H(Hf)
    anaH = np.zeros((6, 6))
    refH = np.zeros((6, 6))
    for k in range(3):
        e = [mp.mpf(0)] * 3
        e[k] = mp.mpf(1)
        Kf = np.zeros((3, 3))
        Kf[(k + 2) % 3, (k + 1) % 3] = 1.0
        Kf[(k + 1) % 3, (k + 2) % 3] = -1.0
        ana[:, k] = np.einsum("ijk,jk->i", LA, Af @ Kf)
        Ep = mpref.exp_so3([he * x for x in e])
        Em = mpref.exp_so3([-he * x for x in e])
        lp = mpref.log_so3(A * Ep)
        lm = mpref.log_so3(A * Em)
        ref[:, k] = [float((x - y) / (2 * he)) for x, y in zip(lp, lm)]
        # SE(3): rotational tangent direction H * [[K,0],[0,0]] and translational H * [[0,e],[0,0]]
        dH = np.zeros((4, 4))
        dH[:3, :3] = Kf
        anaH[:, 3 + k] = np.einsum("ijk,jk->i", LH, Hf @ dH)
        Gp = mp.eye(4)
        Gm = mp.eye(4)
        for i in range(3):
            for j in range(3):
                Gp[i, j] = Ep[i, j]
                Gm[i, j] = Em[i, j]
        lp = mpref.log_se3(H * Gp)
        lm = mpref.log_se3(H * Gm)
        refH[:, 3 + k] = [float((x - y) / (2 * he)) for x, y in zip(lp, lm)]
        dH = np.zeros((4, 4))
        dH[k, 3] = 1.0
        anaH[:, k] = np.einsum("ijk,jk->i", LH, Hf @ dH)
        Gp = mp.eye(4)
        Gm = mp.eye(4)
        Gp[k, 3] = he
        Gm[k, 3] = -he
        lp = mpref.log_se3(H * Gp)
        lm = mpref.log_se3(H * Gm)
        refH[:, k] = [float((x - y) / (2 * he)) for x, y in zip(lp, lm)]
    cmp("Log_SO3_A", ana, ref)
    cmp("Log_SE3_H", anaH, refH)

    # quaternion tangent maps (rational): float Richardson differences, relative tolerance
    nP = float(np.linalg.norm(P))
    fq = {"normP": nP}
    for name, fun, dfun in (
        ("T_SO3_quat_P", rot.T_SO3_quat, rot.T_SO3_quat_P),
        ("T_SO3_inv_quat_P", rot.T_SO3_inv_quat, rot.T_SO3_inv_quat_P),
        ("Exp_SO3_quat_P", rot.Exp_SO3_quat, rot.Exp_SO3_quat_P),
    ):
        num, dis = jacobian(fun, P, 1e-3 * nP)
        compare(res, "derivative", name, dfun(P), num, dis, fq, tol=1e-6, relative=True)

    axis_aligned = int(np.sum(np.abs(psi) > 0)) <= 1
    res.nontrivial = a > 0 and not axis_aligned
    if a == 0:
        res.label("|psi|=0")
    else:
        res.label(f"|psi|~1e{int(math.floor(math.log10(a))):+d}")
    if math.pi - a < 1e-3:
        res.label("pi-|psi|<1e-3")
    return res
