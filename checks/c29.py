"""C29 VTK export writes what was simulated."""

import os
import shutil
import tempfile
import xml.dom.minidom as minidom

import numpy as np
from hypothesis import strategies as st

from harness import gen, build, sysbuild, dynbuild, rodbuild
from harness.runner import Result, quiet

PROPERTY = "C29"
LEVEL = "exploration"
RULE = (
    "case kinds. dynamic: a system with a bouncing RigidBody sphere (Sphere2Plane contact with friction), a PointMass "
    "pendulum on a FixedDistance constraint, a prescribed moving Frame, a spring on a TwoPointInteraction and gravity "
    "forces, integrated with Moreau (dt in {0.01, 0.02}, 10..40 steps, speeds >= 0.1), exported with a frame rate in "
    "[1, 200], write_ascii True/False, contributions exported one by one and as a list. rod: a clamped rod "
    "(Quaternion / SE3 / R12 interpolation) solved statically in 2..6 load steps and exported at level 'centerline + "
    "directors' or at level 'volume' (rectangular or circular section, with and without volume_directors; end layers "
    "compared with the nodal frames to 5e-2 because the control points come from an L2 projection, and the corners of "
    "every layer compared exactly with the exported d2/d3). Non-trivial: at least two frames were exported and the exported body moved between them."
)
ASSUMPTIONS = [
    "files are read back with vtkXMLUnstructuredGridReader; a frame is matched to the solution row whose time equals "
    "the collection's timestep to 6 decimals (unique because dt >= 1e-2)",
    "expected geometry is recomputed by the harness from (t_i, q_i, u_i) with independent formulas (q[:3], prescribed "
    "r(t), quaternion-to-matrix, joint end points, Lagrange interpolation of the rod's nodal positions)",
    "tolerance 1e-6*(1+|value|): vtkPoints stores float32 and the writer is always ASCII; a wrong frame, body or "
    "component is off by O(dt*v) >= 1e-3 in the generated scenes",
]
CASES = {"quick": 30, "thorough": 800}
SHARDS = {"quick": 10, "thorough": 16}
TECHNIQUE = "generated systems/solutions/frame rates; round-trip through the written .pvd/.vtu files (VTK reader) against geometry recomputed from the solution"
LEVEL_TEXT = (
    "Generated-input search with a read-back oracle: the written collection and data files are parsed and compared "
    "with the geometry the harness recomputes from the solution rows. Sampling, not proof."
)
LEVEL_NOTE = "trusted: VTK's XML reader; the harness geometry formulas"


@st.composite
def _case(draw):
    kind = draw(st.sampled_from(["dynamic", "dynamic", "dynamic", "rod", "rod"]))
    if kind == "rod":
        rs = draw(rodbuild.rod_spec(max_nel=3, allow_constraints=False))
        rs["mixed"] = False
        rs["L"] = draw(gen.f(1.0, 2.0))
        EI = min(rs["Fi"][1:])
        return {"kind": kind, "rod": rs, "nsteps": draw(st.integers(2, 6)), "fps": draw(gen.f(1.0, 12.0)),
                "F": (np.array(draw(gen.unit_vec3())) * EI / rs["L"] ** 2 * draw(gen.f(0.5, 1.5))).tolist(),
                "ascii": draw(st.booleans()),
                # half of the rods are exported as volumes (the default level), with a rectangular or circular section
                "volume": draw(st.one_of(st.none(), st.fixed_dictionaries({
                    "rect": st.one_of(st.none(), st.tuples(gen.f(0.05, 0.5), gen.f(0.05, 0.5)).map(list), st.tuples(gen.f(0.05, 0.5), gen.f(0.05, 0.5)).map(list)),
                    "wedge": st.booleans(), "directors": st.sampled_from([True, True, False]), "radius": gen.f(0.02, 0.3)})))}
    ball = draw(build.rigid_body(unit=True))
    ball["r"] = [draw(gen.f(-0.3, 0.3)), draw(gen.f(-0.3, 0.3)), 0.3 + draw(gen.f(0.0, 0.5))]
    ball["v"] = [draw(gen.f(0.3, 1.5)), draw(gen.f(-1, 1)), draw(gen.f(-1.0, -0.1))]
    return {"kind": kind, "ball": ball, "radius": 0.2, "mu": draw(st.sampled_from([0.0, 0.3, 0.6])), "e_N": draw(gen.f(0, 0.8)),
            "pm_r": [draw(gen.f(0.5, 1.2)), draw(gen.f(-0.5, 0.5)), draw(gen.f(-1.0, -0.3))], "pm_rate": draw(gen.f(0.5, 2.0)),
            "motion": draw(build.motion(moving=True, rotating=draw(st.booleans()))), "k": draw(gen.f(1, 20)),
            "dt": draw(st.sampled_from([0.01, 0.02])), "nsteps": draw(st.integers(10, 40)), "fps": 10.0 ** draw(gen.f(0.0, 2.3)),
            "ascii": draw(st.booleans()),
            # the point mass is additionally exported under a file name that is already taken (the rigid body's)
            "same_name": draw(st.booleans()),
            # a second ball with its own contact (the two contacts are also exported as one list), and optionally a plane that
            # tilts about an axis through an origin away from the world origin (frictionless then, see C06)
            "ball2": {"mass": draw(gen.f(0.5, 2.0)), "vx": draw(gen.f(-1.0, 1.0)), "vz": draw(gen.f(-1.5, -0.2)), "h": draw(gen.f(0.05, 0.4))},
            "tilt": {"rate": draw(gen.f(-0.3, 0.3)), "origin": [draw(gen.f(-1, 1)), draw(gen.f(-1, 1)), 0.0]} if draw(st.integers(0, 2)) == 0 else None}


def strategy(tier):
    return _case()


def read_vtu(path):
    import vtk
    from vtk.util.numpy_support import vtk_to_numpy

    r = vtk.vtkXMLUnstructuredGridReader()
    r.SetFileName(path)
    r.Update()
    g = r.GetOutput()
    pts = vtk_to_numpy(g.GetPoints().GetData()).astype(float) if g.GetNumberOfPoints() else np.zeros((0, 3))
    cd, pd = {}, {}
    for data, out in ((g.GetCellData(), cd), (g.GetPointData(), pd)):
        for i in range(data.GetNumberOfArrays()):
            a = data.GetArray(i)
            if a is not None:
                out[data.GetArrayName(i)] = vtk_to_numpy(a).astype(float)
    return pts, cd, pd


def read_pvd(path):
    dom = minidom.parse(path)
    return [(float(ds.getAttribute("timestep")), ds.getAttribute("file")) for ds in dom.getElementsByTagName("DataSet")]


def check(spec):
    from cardillo.visualization import Export

    res = Result()
    feats = {"kind": spec["kind"]}
    tmp = tempfile.mkdtemp(prefix="c29_")
    try:
        if spec["kind"] == "dynamic":
            _dynamic(spec, res, feats, tmp, Export)
        else:
            _rod(spec, res, feats, tmp, Export)
    finally:
        shutil.rmtree(tmp, ignore_errors=True)
    res.label("kind:" + spec["kind"], "ascii" if spec["ascii"] else "binary_requested")
    if spec.get("same_name"):
        res.label("two_exports_under_one_file_name")
    if spec.get("tilt"):
        res.label("plane:tilting_about_offset_origin")
    if spec.get("ball2"):
        res.label("contact_list_export")
    return res


def _frames(res, site, feats, folder, name, sol_t):
    """Parse the collection; returns list of (row index, file path)."""
    pvd = os.path.join(folder, name + ".pvd")
    res.ok()
    if not os.path.exists(pvd):
        res.fail("collection_file_written", site, None, feats, pvd)
        return []
    entries = read_pvd(pvd)
    files = sorted(f for f in os.listdir(folder) if f.startswith(name + "_") and f.endswith(".vtu"))
    res.ok()
    if len(entries) != len(files) or len(entries) == 0:
        res.fail("one_dataset_per_written_file", site, None, feats, f"{len(entries)} DataSets, {len(files)} files")
    ts = [e[0] for e in entries]
    res.ok()
    if any(b < a for a, b in zip(ts, ts[1:])):
        res.fail("frames_in_time_order", site, None, feats, str(ts[:5]))
    out = []
    for tstep, fn in entries:
        p = os.path.join(folder, fn)
        res.ok()
        if not os.path.exists(p):
            res.fail("listed_file_exists", site, None, feats, fn)
            continue
        k = np.where(np.abs(np.asarray(sol_t) - tstep) < 5e-7)[0]
        res.ok()
        if len(k) != 1:
            res.fail("frame_time_is_a_solution_time", site, None, feats, f"timestep {tstep}")
            continue
        out.append((int(k[0]), p))
    res.ok()
    if out and out[0][0] != 0:
        res.fail("first_frame_is_initial_state", site, None, feats, f"first frame is row {out[0][0]}")
    return out


def _cmp(res, sub, site, feats, got, want, detail=""):
    got, want = np.asarray(got, dtype=float), np.asarray(want, dtype=float)
    res.ok()
    if got.shape != want.shape:
        res.fail(sub, site, None, feats, f"shape {got.shape} vs {want.shape} {detail}")
        return
    err = float(np.max(np.abs(got - want))) if got.size else 0.0
    if err > 1e-6 * (1 + float(np.max(np.abs(want))) if want.size else 1.0):
        res.fail(sub, site, err, feats, f"err={err:.3e} {detail}")


def _dynamic(spec, res, feats, tmp, Export):
    from cardillo.contacts import Sphere2Plane
    from cardillo.constraints import FixedDistance
    from cardillo.discrete import Frame, PointMass
    from cardillo.forces import Force

    system = sysbuild.new_system(0.0)
    ball = build.make_body(spec["ball"], name="ball")
    pm_r = np.array(spec["pm_r"], dtype=float)
    w = spec["pm_rate"] * np.array([0.0, 1.0, 0.0])
    pm = PointMass(0.7, q0=pm_r, u0=np.cross(w, pm_r), name="pm")
    mover = build.make_frame(spec["motion"], name="mover")
    tilt = spec.get("tilt")
    mu = 0.0 if tilt else spec["mu"]
    if tilt:
        rate, rQ = tilt["rate"], np.array(tilt["origin"], dtype=float)
        ex = np.array([1.0, 0.0, 0.0])
        Kx = gen._skew(ex)
        ground = Frame(r_OP=rQ, A_IB=lambda t_: gen._exp(ex * rate * t_), A_IB_t=lambda t_: rate * Kx @ gen._exp(ex * rate * t_),
                       A_IB_tt=lambda t_: rate * rate * Kx @ Kx @ gen._exp(ex * rate * t_), name="ground")
    else:
        rate, rQ = 0.0, np.zeros(3)
        ground = Frame(name="ground")
    contact = Sphere2Plane(ground, ball, mu=mu, r=spec["radius"], e_N=spec["e_N"], name="contact")
    b2 = spec.get("ball2")
    ball2 = contact2 = grav_b2 = None
    if b2:
        from cardillo.discrete import RigidBody
        ball2 = RigidBody(b2["mass"], 0.4 * b2["mass"] * 0.15**2 * np.eye(3), q0=np.array([1.5, 0.4, 0.15 + b2["h"], 1.0, 0, 0, 0]),
                          u0=np.array([b2["vx"], 0.0, b2["vz"] if b2["h"] > 0 else 0.0, 0.0, 2.0, 0.0]), name="ball2")
        contact2 = Sphere2Plane(ground, ball2, mu=mu, r=0.15, e_N=0.0, name="contact2")
        grav_b2 = Force(np.array([0, 0, -9.81]) * b2["mass"], ball2, name="grav_ball2")
    link = FixedDistance(system.origin, pm)
    link.name = "link"
    grav_b = Force(np.array([0, 0, -9.81]) * spec["ball"]["mass"], ball, name="grav_ball")
    grav_p = Force(np.array([0, 0, -9.81]) * 0.7, pm, name="grav_pm")
    tpi = sysbuild.make_tpi({"B1": [0.0, 0.0, 2.0], "B2": [0.05, 0.0, 0.0], "name": "tpi"}, system.origin, ball)
    spring = sysbuild.make_force_law({"type": "Spring", "k": spec["k"], "l_ref": 1.5, "compliance": False}, tpi)
    # a meshed frame (a box carried by the prescribed motion of `mover`), exported as a mesh
    from cardillo.discrete import Box
    mf_ = build.motion_functions(spec["motion"])
    table = Box(Frame)(dimensions=[0.8, 0.5, 0.1], r_OP=mf_["r"], r_OP_t=mf_["r_t"], r_OP_tt=mf_["r_tt"], A_IB=mf_["A"],
                       A_IB_t=mf_["A_t"], A_IB_tt=mf_["A_tt"], name="table")
    system.add(ball, pm, mover, ground, contact, link, grav_b, grav_p, tpi, spring, table)
    if b2:
        system.add(ball2, contact2, grav_b2)
    with quiet():
        system.assemble(options=dynbuild.options(fixed_point_atol=1e-8))
    dt, n = spec["dt"], spec["nsteps"]
    try:
        sol, _ = dynbuild.run("Moreau", system, n * dt, dt)
    except RuntimeError as e:
        if "not converged" in str(e):
            res.inconclusive += 1
            return
        raise
    with quiet():
        e = Export(tmp, "out", True, spec["fps"], sol, write_ascii=spec["ascii"])
        e.export_contr(ball)
        e.export_contr(pm)
        e.export_contr(mover)
        e.export_contr(contact)
        e.export_contr(link)
        e.export_contr(spring)
        e.export_contr([grav_b, grav_p], file_name="gravity")
        e.export_contr(table)
        if b2:
            e.export_contr([contact, contact2], file_name="contacts")
        if spec.get("same_name"):
            e.export_contr(pm, file_name="ball")  # Export must pick a free name ("ball1") and leave "ball" alone
    folder = os.path.join(tmp, "out")
    t, q, u = np.asarray(sol.t), np.asarray(sol.q), np.asarray(sol.u)
    mot = build.motion_functions(spec["motion"])
    moved = False
    nframes = 0

    # ---- rigid body ------------------------------------------------------------------------------
    fr = _frames(res, "RigidBody", feats, folder, "ball", t)
    nframes = len(fr)
    for k, p in fr:
        pts, cd, _ = read_vtu(p)
        qb, ub = q[k][ball.qDOF], u[k][ball.uDOF]
        R = gen.quat_to_R(qb[3:])
        _cmp(res, "points_equal_geometry", "RigidBody", feats, pts, [qb[:3]], f"row {k}")
        _cmp(res, "vectors_equal_state:v", "RigidBody", feats, cd.get("v"), [ub[:3]], f"row {k}")
        _cmp(res, "vectors_equal_state:Omega", "RigidBody", feats, cd.get("Omega"), [R @ ub[3:]], f"row {k}")
        for i, nm in enumerate(("ex", "ey", "ez")):
            _cmp(res, "vectors_equal_state:" + nm, "RigidBody", feats, cd.get(nm), [R[:, i]], f"row {k}")
    if len(fr) >= 2:
        moved = float(np.linalg.norm(q[fr[-1][0]][ball.qDOF][:3] - q[fr[0][0]][ball.qDOF][:3])) > 1e-3
    # ---- point mass ------------------------------------------------------------------------------
    for coll in ["pm"] + (["ball1"] if spec.get("same_name") else []):
        for k, p in _frames(res, "PointMass", feats, folder, coll, t):
            pts, cd, _ = read_vtu(p)
            _cmp(res, "points_equal_geometry", "PointMass", feats, pts, [q[k][pm.qDOF]], f"row {k} of {coll}.pvd")
            _cmp(res, "vectors_equal_state:v", "PointMass", feats, cd.get("v"), [u[k][pm.uDOF]], f"row {k} of {coll}.pvd")
    # ---- prescribed frame -------------------------------------------------------------------------
    for k, p in _frames(res, "Frame", feats, folder, "mover", t):
        pts, cd, _ = read_vtu(p)
        A = mot["A"](t[k])
        S = A.T @ mot["A_t"](t[k])
        Bw = np.array([S[2, 1] - S[1, 2], S[0, 2] - S[2, 0], S[1, 0] - S[0, 1]]) / 2
        _cmp(res, "points_equal_geometry", "Frame", feats, pts, [mot["r"](t[k])], f"row {k}")
        _cmp(res, "vectors_equal_state:v", "Frame", feats, cd.get("v"), [mot["r_t"](t[k])], f"row {k}")
        _cmp(res, "vectors_equal_state:Omega", "Frame", feats, cd.get("Omega"), [A @ Bw], f"row {k}")
        _cmp(res, "vectors_equal_state:ex", "Frame", feats, cd.get("ex"), [A[:, 0]], f"row {k}")
    # ---- meshed frame: every vertex follows the prescribed motion -----------------------------------------
    Bv = np.asarray(table.B_r_CQi_T, dtype=float)
    for k, p in _frames(res, "Meshed(Frame)", feats, folder, "table", t):
        pts, _, _ = read_vtu(p)
        _cmp(res, "points_equal_geometry", "Meshed(Frame)", feats, pts, (mot["r"](t[k])[:, None] + mot["A"](t[k]) @ Bv).T, f"row {k}")
    # ---- contact -----------------------------------------------------------------------------------
    P_N, P_F = np.asarray(sol.P_N), (np.asarray(sol.P_F) if sol.P_F is not None else None)

    def contact_rows(k, cobj, body, radius):
        """expected points / point data / cell data of one Sphere2Plane contact at row k"""
        tk = t[k]
        A2 = gen._exp(np.array([1.0, 0.0, 0.0]) * rate * tk)
        nvec = A2[:, 2]
        om2 = np.array([1.0, 0.0, 0.0]) * rate
        qb, ub = q[k][body.qDOF], u[k][body.uDOF]
        c = qb[:3]
        Rb = gen.quat_to_R(qb[3:])
        gN = float(nvec @ (c - rQ) - radius)
        pC1 = c - radius * nvec
        pC2 = c - nvec * (gN + radius)
        om1 = Rb @ ub[3:]
        v1 = ub[:3] + np.cross(om1, pC1 - c)
        v2 = np.cross(om2, pC2 - rQ)
        i = int(cobj.la_NDOF[0])
        out = {"points": [pC1, pC2], "v_Ci": [v1, v2], "Omega": [om1, om2], "n": [-nvec, nvec],
               "P_N": [P_N[k][i], P_N[k][i]], "g_N": gN}
        if hasattr(cobj, "la_FDOF") and P_F is not None and mu > 0:
            pf = P_F[k][np.asarray(cobj.la_FDOF, dtype=int)]
            out["P_F"] = [pf, pf]
        return out

    def check_contacts(coll, members, site_):
        for k, p in _frames(res, site_, feats, folder, coll, t):
            pts, cd, pd = read_vtu(p)
            rows = [contact_rows(k, cobj, body, radius) for cobj, body, radius in members]
            _cmp(res, "points_equal_geometry", site_, feats, pts, [x for r_ in rows for x in r_["points"]], f"row {k}")
            for key in ("v_Ci", "Omega", "n"):
                if key in pd:
                    _cmp(res, "vectors_equal_state:" + key, site_, feats, pd[key], [x for r_ in rows for x in r_[key]], f"row {k}")
            if "P_N" in pd:
                _cmp(res, "vectors_equal_state:P_N", site_, feats, np.asarray(pd["P_N"]).reshape(-1), [x for r_ in rows for x in r_["P_N"]], f"row {k}")
            if "P_F" in pd and all("P_F" in r_ for r_ in rows):
                _cmp(res, "vectors_equal_state:P_F", site_, feats, np.asarray(pd["P_F"]).reshape(len(rows) * 2, -1),
                     [x for r_ in rows for x in r_["P_F"]], f"row {k}")
            if "g_N" in cd:
                _cmp(res, "vectors_equal_state:g_N", site_, feats, np.asarray(cd["g_N"]).reshape(-1), [r_["g_N"] for r_ in rows], f"row {k}")

    check_contacts("contact", [(contact, ball, spec["radius"])], "Sphere2Plane")
    if b2:
        check_contacts("contacts", [(contact, ball, spec["radius"]), (contact2, ball2, 0.15)], "Sphere2Plane(list)")
    # ---- fixed distance and two-point interaction ---------------------------------------------------
    for k, p in _frames(res, "FixedDistance", feats, folder, "link", t):
        pts, _, _ = read_vtu(p)
        _cmp(res, "points_equal_geometry", "FixedDistance", feats, pts, [np.zeros(3), q[k][pm.qDOF]], f"row {k}")
    for k, p in _frames(res, "Spring@TwoPointInteraction", feats, folder, "spring", t):
        pts, _, _ = read_vtu(p)
        qb = q[k][ball.qDOF]
        _cmp(res, "points_equal_geometry", "Spring@TwoPointInteraction", feats, pts,
             [np.array([0.0, 0.0, 2.0]), qb[:3] + gen.quat_to_R(qb[3:]) @ np.array([0.05, 0.0, 0.0])], f"row {k}")
    # ---- list export -------------------------------------------------------------------------------
    for k, p in _frames(res, "Force(list)", feats, folder, "gravity", t):
        pts, cd, _ = read_vtu(p)
        _cmp(res, "points_equal_geometry", "Force(list)", feats, pts, [q[k][ball.qDOF][:3], q[k][pm.qDOF]], f"row {k}")
        _cmp(res, "vectors_equal_state:F", "Force(list)", feats, cd.get("F"),
             [np.array([0, 0, -9.81]) * spec["ball"]["mass"], np.array([0, 0, -9.81]) * 0.7], f"row {k}")
    res.nontrivial = nframes >= 2 and moved
    res.label("frames>=2" if nframes >= 2 else "frames<2")


def _lagrange(nodes_x, nodes_y, x):
    out = np.zeros(nodes_y.shape[1])
    for i, xi in enumerate(nodes_x):
        l = 1.0
        for j, xj in enumerate(nodes_x):
            if i != j:
                l *= (x - xj) / (xi - xj)
        out += l * nodes_y[i]
    return out


def _rod_volume(spec, res, feats, rod, vol, fr, q, n, site):
    """Volume export: layers of Bezier control points along the rod. The control points come from an L2 projection of
    the sampled frames, so they only approximate the rod's geometry (loose tolerance at the two end layers); the
    relation between the points of one layer and the exported director data is exact up to the single-precision storage."""
    ppl = rod.cross_section.vtk_points_per_layer
    LOOSE = 5e-2
    for k, p in fr:
        pts, cd, pd = read_vtu(p)
        qk = q[k][rod.qDOF]
        res.ok()
        if len(pts) % ppl != 0 or len(pts) == 0:
            res.fail("points_equal_geometry", site, None, feats, f"{len(pts)} points are not whole layers of {ppl}")
            continue
        r_nodes = qk[: 3 * n].reshape(3, n).T
        P_nodes = qk[3 * n:].reshape(4, n).T
        layers = pts.reshape(-1, ppl, 3)
        has_dirs = all(nm in pd for nm in ("d1", "d2", "d3"))
        if vol["directors"] and not has_dirs:
            res.fail("vectors_equal_state:d", site, None, feats, "volume_directors requested but d1/d2/d3 are not in the file")
            continue
        for end, node in ((0, 0), (-1, -1)):
            R = gen.quat_to_R(P_nodes[node])
            L = layers[end]
            if vol["rect"]:
                w, h = vol["rect"]
                want = np.array([r_nodes[node] + R @ np.array([0.0, sy * w / 2, sz * h / 2])
                                 for sy, sz in ((-1, -1), (1, -1), (1, 1), (-1, 1))])
                err = float(np.max(np.abs(L - want)))
                res.ok()
                if err > LOOSE * (1 + max(w, h)):
                    res.fail("points_equal_geometry", site, err, feats, f"row {k} end layer {end}: corners off by {err:.3e}")
            else:
                # control points of the circle lie in the cross-section plane, within two radii of the centreline
                d = L - r_nodes[node]
                res.ok()
                if float(np.max(np.abs(d @ R[:, 0]))) > LOOSE * (1 + vol["radius"]) or float(np.max(np.linalg.norm(d, axis=1))) > 2.2 * vol["radius"] + LOOSE:
                    res.fail("points_equal_geometry", site, float(np.max(np.linalg.norm(d, axis=1))), feats,
                             f"row {k} end layer {end}: control points leave the cross-section plane/disc")
            if has_dirs:
                for nm, col in (("d1", 0), ("d2", 1), ("d3", 2)):
                    got = pd[nm].reshape(-1, ppl, 3)[end]
                    err = float(np.max(np.abs(got - R[:, col])))
                    res.ok()
                    if err > LOOSE:
                        res.fail("vectors_equal_state:" + nm, site, err, feats, f"row {k} end layer {end}: {nm} off by {err:.3e}")
        if vol["rect"] and has_dirs:
            # exact: the width is laid out along the exported d2, the height along the exported d3, in every layer
            w, h = vol["rect"]
            D2, D3 = pd["d2"].reshape(-1, ppl, 3), pd["d3"].reshape(-1, ppl, 3)
            e2 = float(np.max(np.abs((layers[:, 1] - layers[:, 0]) / w - D2[:, 0])))
            e3 = float(np.max(np.abs((layers[:, 3] - layers[:, 0]) / h - D3[:, 0])))
            res.ok()
            # files store single-precision coordinates: the quotient carries their rounding divided by the side length
            if max(e2, e3) > 1e-6 + 1e-6 * (1 + float(np.max(np.abs(pts)))) / min(w, h):
                res.fail("vectors_equal_state:d2d3_vs_points", site, max(e2, e3), feats,
                         f"row {k}: exported d2/d3 differ from the directions the section corners are laid out along by {max(e2, e3):.3e}")


def _rod(spec, res, feats, tmp, Export):
    from cardillo.discrete import Frame
    from cardillo.forces import Force
    from cardillo.solver import Newton

    rs = spec["rod"]
    system = sysbuild.new_system(0.0)
    rod, Q = rodbuild.make_rod(rs)
    n = rodbuild.nnodes(rs)
    frame = Frame(r_OP=Q[[0, n, 2 * n]], A_IB=gen.quat_to_R(Q[3 * n + np.array([0, n, 2 * n, 3 * n])]), name="clamp_frame")
    system.add(frame, rod)
    system.add(sysbuild.make_joint({"type": "RigidConnection", "xi2": 0.0}, frame, rod))
    F = np.array(spec["F"], dtype=float)
    system.add(Force(lambda t: t * F, rod, xi=1.0, name="tip"))
    sysbuild.assemble(system)
    with quiet():
        sol = Newton(system, n_load_steps=spec["nsteps"], options=dynbuild.options(newton_atol=1e-9, newton_max_iter=40)).solve()
    if len(sol.t) != spec["nsteps"] + 1:
        res.inconclusive += 1
        return
    vol = spec.get("volume")
    if vol:
        from cardillo.rods import RectangularCrossSection, CircularCrossSection

        # the section only matters for the exported geometry (inertia and stiffness were given explicitly)
        rod.cross_section = (RectangularCrossSection(*vol["rect"]) if vol["rect"]
                             else CircularCrossSection(vol["radius"], export_as_wedge=vol["wedge"]))
        rod._export_dict["level"] = "volume"
        rod._export_dict["volume_directors"] = vol["directors"]
    else:
        rod._export_dict["level"] = "centerline + directors"
    with quiet():
        e = Export(tmp, "out", True, spec["fps"], sol, write_ascii=spec["ascii"])
        e.export_contr(rod)
    folder = os.path.join(tmp, "out")
    t, q = np.asarray(sol.t), np.asarray(sol.q)
    site = f"rod[{rs['interp']}]"
    fr = _frames(res, site, feats, folder, "rod", t)
    if vol:
        _rod_volume(spec, res, feats, rod, vol, fr, q, n, site + ".volume")
        moved = len(fr) >= 2 and float(np.max(np.abs(q[fr[-1][0]] - q[fr[0][0]]))) > 1e-3
        res.nontrivial = len(fr) >= 2 and moved
        res.label("frames>=2" if len(fr) >= 2 else "frames<2", site + ".volume")
        return
    num = rod._export_dict.get("num_frames")
    for k, p in fr:
        pts, cd, pd = read_vtu(p)
        qk = q[k][rod.qDOF]
        res.ok()
        if num is not None and len(pts) != num:
            res.fail("points_equal_geometry", site, None, feats, f"{len(pts)} points, expected {num}")
            continue
        xis = np.linspace(0, 1, len(pts))
        # end points are nodes: exact nodal positions and directors
        r_nodes = qk[: 3 * n].reshape(3, n).T
        P_nodes = qk[3 * n:].reshape(4, n).T
        _cmp(res, "points_equal_geometry", site, feats, pts[[0, -1]], r_nodes[[0, -1]], f"row {k} (end nodes)")
        for nm, col in (("d1", 0), ("d2", 1), ("d3", 2)):
            if nm in pd:
                _cmp(res, "vectors_equal_state:" + nm, site, feats, pd[nm][[0, -1]],
                     [gen.quat_to_R(P_nodes[0])[:, col], gen.quat_to_R(P_nodes[-1])[:, col]], f"row {k}")
        if rs["interp"] in ("Quaternion", "R12"):
            # interior points: Lagrange interpolation of the nodal positions within the element
            p_, nel = rs["degree"], rs["nel"]
            want = []
            for x in xis:
                el = min(int(x * nel), nel - 1)
                if x * nel == el and el > 0 and x < 1:
                    pass
                xs = np.array([(el + i / p_) / nel for i in range(p_ + 1)])
                want.append(_lagrange(xs, r_nodes[el * p_: el * p_ + p_ + 1], x))
            _cmp(res, "points_equal_geometry", site, feats, pts, want, f"row {k} (centreline)")
    moved = len(fr) >= 2 and float(np.max(np.abs(q[fr[-1][0]] - q[fr[0][0]]))) > 1e-3
    res.nontrivial = len(fr) >= 2 and moved
    res.label("frames>=2" if len(fr) >= 2 else "frames<2", site)
