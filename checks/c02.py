"""C02 Rotation charts invert each other on their whole domain."""

import math

import numpy as np
from hypothesis import strategies as st

from harness import gen, mpref
from harness.numdiff import directional
from harness.runner import Result

PROPERTY = "C02"
LEVEL = "exploration"
RULE = (
    "case = rotation vector psi (norm log-uniform in [1e-9,pi) or [1e-30,pi), uniform, pi-10^-k for k=1..12, or 0; random, "
    "axis-aligned and zero-component axes), a rotation matrix A built in 40-digit arithmetic and rounded to "
    "float64 from {psi, a scaled quaternion, an exact half-turn 2nn^T-I, a half-turn perturbed by a rotation of "
    "1e-k}, a tangent-map rotation vector with norm in [0,2pi-1e-6], a rate psi_dot and a translation r. "
    "Non-trivial: |psi|>1e-3 and axis not coordinate-aligned. Separately classified: at / near a half-turn."
)
ASSUMPTIONS = [
    "references (Exp, Log, tangent map) computed with 40-digit mpmath from the mathematical definitions",
    "tolerance 1e-9 absolute for round-trips (1e-6 when the rotation is within 1e-6 of a half-turn, the looser "
    "bound stated in DESIGN.md); at |psi| = pi the rotation vector's sign is not unique so Exp(Log A) is "
    "compared as a matrix",
    "T_SO3 used to evaluate (1-cos a)/a^2 with cancellation (forward error times |psi| up to 3e-8 near a=1e-8), "
    "which the first version of this check allowed for; it was repaired as F45 and the allowance removed: every "
    "clause through T_SO3 holds to 1e-9; T*T_inv is compared relative to (1+max|T_inv|); the band "
    "(2pi-1e-6, 2pi) where T is singular is excluded",
    "matrices A handed to Log are the float64 rounding of an exact rotation (entries within 1.2e-16)",
]
CASES = {"quick": 2500, "thorough": 100000}
SHARDS = {"quick": 4, "thorough": 16}
TECHNIQUE = "generated rotation vectors/matrices (log-uniform angles, exact and near half-turns) vs 40-digit mpmath Exp/Log; round-trip oracles"
LEVEL_TEXT = (
    "Generated-input search over the whole chart domain including the singular neighbourhoods (angle -> 0, "
    "angle -> pi, exact half-turns with tied Spurrier branches, tangent-map angle -> 2pi), with round-trip and "
    "high-precision reference oracles. Sampling, not proof."
)
LEVEL_NOTE = "trusted: mpmath; tolerances as stated in assumptions"


@st.composite
def _case(draw):
    psi = draw(gen.rotvec(min_exp=draw(st.sampled_from([-9, -9, -30]))))
    kindA = draw(st.sampled_from(["psi", "quat", "half", "half_pert", "half_axis"]))
    spec = {"psi": psi, "kindA": kindA}
    if kindA == "quat":
        spec["P"] = draw(gen.quat())
    elif kindA in ("half", "half_pert"):
        spec["n"] = draw(gen.unit_vec3())
        if kindA == "half_pert":
            spec["pert"] = (np.array(draw(gen.unit_vec3())) * 10.0 ** (-draw(st.integers(1, 15)))).tolist()
    elif kindA == "half_axis":
        # half-turn about an axis with tied diagonal entries (Spurrier argmax ties)
        spec["n"] = draw(st.sampled_from([[1.0, 0, 0], [0, 1.0, 0], [0, 0, 1.0],
                                          [math.sqrt(0.5), math.sqrt(0.5), 0.0],
                                          [0.0, math.sqrt(0.5), -math.sqrt(0.5)],
                                          [1 / math.sqrt(3)] * 3, [0.6, 0.0, 0.8]]))
    # tangent-map argument: any norm in [0, 2pi - 1e-6]
    ax = np.array(draw(gen.unit_vec3()))
    tk = draw(st.sampled_from(["log", "uniform", "near2pi"]))
    if tk == "log":
        a = draw(gen.log_uniform(draw(st.sampled_from([-9, -9, -30])), math.log10(2 * math.pi - 1e-6)))
    elif tk == "uniform":
        a = draw(gen.f(0.0, 2 * math.pi - 1e-6))
    else:
        a = 2 * math.pi - 10.0 ** (-draw(gen.f(0.0, 6.0)))
    spec["psiT"] = (min(a, 2 * math.pi - 1e-6) * ax).tolist()
    spec["psi_dot"] = draw(gen.vec3(-2, 1, allow_zero=False))
    spec["r"] = draw(gen.vec3(-2, 2))
    spec["call"] = draw(st.sampled_from(["fresh", "fresh", "buffer"]))
    return spec


def strategy(tier):
    return _case()


def static_cases(tier):
    base = {"psi": [0.3, -0.2, 0.5], "psiT": [1.0, 2.0, -0.5], "psi_dot": [0.1, 0.2, 0.3], "r": [1.0, -2.0, 0.5]}
    out = []
    for n in ([1.0, 0, 0], [0, 1.0, 0], [0, 0, 1.0], [0.6, 0.0, 0.8], [1 / math.sqrt(3)] * 3):
        out.append(dict(base, kindA="half_axis", n=[float(v) for v in n]))
    out.append(dict(base, kindA="psi", psi=[0.0, 0.0, 0.0]))
    out.append(dict(base, kindA="psi", psi=[0.0, 0.0, math.pi - 1e-9]))
    return out


def _make_A(spec):
    """Rotation matrix rounded from 40-digit arithmetic; returns (A float64, angle as float)."""
    import mpmath as mp

    k = spec["kindA"]
    if k == "psi":
        A = mpref.exp_so3(mpref.mpv(spec["psi"]))
    elif k == "quat":
        A = mpref.quat_R(mpref.mpv(spec["P"]))
    else:
        n = mpref.mpv(spec["n"])
        nn = mpref.norm(n)
        n = [v / nn for v in n]
        A = 2 * mp.matrix(n) * mp.matrix(n).T - mp.eye(3)
        if k == "half_pert":
            A = mpref.exp_so3(mpref.mpv(spec["pert"])) * A
    tr = A[0, 0] + A[1, 1] + A[2, 2]
    ca = (tr - 1) / 2
    ca = max(min(ca, mp.mpf(1)), mp.mpf(-1))
    return mpref.to_np(A), float(mp.acos(ca))


def check(spec):
    from cardillo.math import rotations as _rot
    from harness.callconv import Proxy

    rot = Proxy(_rot, spec.get("call", "fresh"))
    from cardillo.math import algebra as alg

    res = Result()
    I3 = np.eye(3)
    psi = np.array(spec["psi"], dtype=float)
    a = float(np.linalg.norm(psi))

    def expect(sub, site, err, tol, feats=None, detail=None):
        res.ok()
        if not np.isfinite(err) or err > tol:
            res.fail(sub, site, err, feats or {}, detail or f"err={err:.3e} tol={tol:.1e}")

    near = lambda ang: (math.pi - ang) < 1e-6
    eps = 2.3e-16

    def cancel(ang):
        """forward-error bound of T_SO3's (1-cos a)/a^2 * skew(psi) in float64: min(a, 4 eps / a)"""
        # since fix F45 the factor is evaluated in half-angle form; no allowance is made any more
        return 0.0
    fpsi = {"angle": a, "pi_minus_angle": math.pi - a}

    # --- Exp yields a rotation and matches the reference --------------------------------
    E = rot.Exp_SO3(psi)
    expect("exp_is_rotation", "Exp_SO3", max(np.max(np.abs(E.T @ E - I3)), abs(np.linalg.det(E) - 1)), 1e-12, fpsi)
    Eref = mpref.to_np(mpref.exp_so3(mpref.mpv(psi)))
    expect("exp_matches_reference", "Exp_SO3", np.max(np.abs(E - Eref)), 1e-12, fpsi)
    # --- Log(Exp psi) = psi for |psi| < pi ---------------------------------------------
    L = rot.Log_SO3(E)
    expect("log_exp", "Log_SO3(Exp_SO3)", np.max(np.abs(L - psi)), 1e-6 if near(a) else 1e-9, fpsi)

    # --- Exp(Log A) = A for every rotation matrix --------------------------------------
    A, angA = _make_A(spec)
    fA = {"angle": angA, "pi_minus_angle": math.pi - angA, "kind": spec["kindA"]}
    tolA = 1e-6 if near(angA) else 1e-9
    LA = rot.Log_SO3(A)
    expect("exp_log", "Exp_SO3(Log_SO3)", np.max(np.abs(rot.Exp_SO3(LA) - A)), tolA, fA)
    expect("log_norm_at_most_pi", "Log_SO3", max(0.0, float(np.linalg.norm(LA)) - math.pi), 1e-9, fA)
    # --- Spurrier ------------------------------------------------------------------------
    q = rot.Spurrier(A)
    expect("spurrier_unit", "Spurrier", abs(float(np.linalg.norm(q)) - 1.0), 1e-12, fA)
    expect("spurrier_reproduces", "Spurrier", np.max(np.abs(rot.Exp_SO3_quat(q, normalize=False) - A)), 1e-12, fA)
    expect("spurrier_reproduces", "Log_SO3_quat", np.max(np.abs(rot.Exp_SO3_quat(rot.Log_SO3_quat(A)) - A)), 1e-12, fA)

    # --- tangent map and inverse -------------------------------------------------------
    pT = np.array(spec["psiT"], dtype=float)
    aT = float(np.linalg.norm(pT))
    fT = {"angle": aT, "twopi_minus_angle": 2 * math.pi - aT}
    T = rot.T_SO3(pT)
    Ti = rot.T_SO3_inv(pT)
    scale = 1.0 + float(np.max(np.abs(Ti)))
    expect("tangent_inverse", "T_SO3*T_SO3_inv", np.max(np.abs(T @ Ti - I3)), (1e-9 + cancel(aT)) * scale, fT)
    expect("tangent_inverse", "T_SO3_inv*T_SO3", np.max(np.abs(Ti @ T - I3)), (1e-9 + cancel(aT)) * scale, fT)
    Tref = mpref.to_np(mpref.t_so3(mpref.mpv(pT)))
    expect("tangent_matches_reference", "T_SO3", np.max(np.abs(T - Tref)), 1e-12 + cancel(aT), fT)
    # spin: axial(A^T dA/deps) = T(psi) psi_dot  (A along psi + eps psi_dot)
    pd = np.array(spec["psi_dot"], dtype=float)
    npd = float(np.linalg.norm(pd))
    for site, p0 in (("T_SO3@|psi|<pi", psi), ("T_SO3@|psi|<2pi", pT)):
        A0 = rot.Exp_SO3(p0)
        dA, dis = directional(lambda e: rot.Exp_SO3(p0 + e * pd / npd), 1e-3)
        if dis > 1e-8:
            res.inconclusive += 1
            continue
        S = A0.T @ dA
        spin = alg.skew2ax(S)
        expect("tangent_is_spin", site, np.max(np.abs(rot.T_SO3(p0) @ (pd / npd) - spin)), 1e-8 + cancel(float(np.linalg.norm(p0))),
               {"angle": float(np.linalg.norm(p0))})

    # --- SE(3) ---------------------------------------------------------------------------
    r = np.array(spec["r"], dtype=float)
    h = np.concatenate([r, psi])
    rs = 1.0 + float(np.linalg.norm(r))
    H = rot.Exp_SE3(h)
    Href = mpref.to_np(mpref.exp_se3(mpref.mpv(h)))
    expect("se3_exp_matches_reference", "Exp_SE3", np.max(np.abs(H - Href)), (1e-12 + cancel(a)) * rs, fpsi)
    expect("se3_roundtrip", "Log_SE3(Exp_SE3)", np.max(np.abs(rot.Log_SE3(H) - h)),
           ((1e-6 if near(a) else 1e-9) + cancel(a)) * rs, fpsi)
    HA = rot.SE3(A, r)
    expect("se3_roundtrip", "Exp_SE3(Log_SE3)", np.max(np.abs(rot.Exp_SE3(rot.Log_SE3(HA)) - HA)),
           (tolA + cancel(angA)) * rs, fA)
    expect("se3_inverse", "SE3inv", np.max(np.abs(rot.SE3inv(HA) @ HA - np.eye(4))), 1e-12 * rs, fA)

    # --- classification ----------------------------------------------------------------
    axis_aligned = int(np.sum(np.abs(psi) > 0)) <= 1
    res.nontrivial = a > 1e-3 and not axis_aligned
    res.label(f"A:{spec['kindA']}")
    if near(angA):
        res.label("A_at_or_near_half_turn")
    if near(a):
        res.label("psi_within_1e-6_of_pi")
    if a == 0:
        res.label("psi=0")
    elif a < 1e-6:
        res.label("|psi|<1e-6")
    if 2 * math.pi - aT < 1e-3:
        res.label("tangent_angle_near_2pi")
    return res
