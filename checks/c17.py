"""C17 Integrators keep bilateral constraints and unit quaternions at every step."""

import numpy as np
from hypothesis import strategies as st

from harness import gen, dynbuild, sysbuild
from harness.runner import Result

PROPERTY = "C17"
LEVEL = "exploration"
RULE = (
    "case = mechanism (open chain of 1-3 rigid bodies with joints from {Revolute, Spherical, Prismatic, Cylindrical, "
    "RigidConnection}, closed loop with an additional spherical joint to the origin, or a point-mass chain with "
    "FixedDistance constraints) with gravity, optional spring/damper, optionally hanging from a frame with prescribed "
    "non-uniform translation/rotation (rheonomic constraint), optionally driven at a revolute joint (Motor, PD, PID, "
    "Maxwell element), consistent initial velocities built as a rigid "
    "motion the first joint permits x solver in {Rattle, BackwardEuler, DualStormerVerlet, Moreau, ScipyDAE, ScipyIVP} "
    "x step size log-uniform in [1e-3, 5e-2] x 20..60 steps. Non-trivial: closed loop or >= 2 joints, and the motion "
    "amplitude (largest change of a coordinate) exceeds 0.1."
)
ASSUMPTIONS = [
    "fixed-step solvers run with Newton / fixed-point tolerances 1e-10; verdict thresholds: |g| <= 1e-7 (Rattle, "
    "BackwardEuler, DualStormerVerlet), |g_dot| <= 1e-7 (Rattle), Moreau |g_dot(t_{n+1/2}, q_{n+1/2}, u_{n+1})| <= 1e-8 "
    "with q_{n+1/2} = q_n + dt/2 q_dot(t_n, q_n, u_n) recomputed by the harness",
    "ScipyDAE (rtol=1e-8, atol=1e-10, tighter than its defaults): |g|, |g_dot| <= 100*(atol + rtol*scale) and the maximum over the last third of "
    "the run <= 3x the maximum over the first third + that bound (no drift)",
    "unit quaternions |  |p| - 1 | <= 1e-12 at every stored step for the four fixed-step schemes (the scipy wrappers "
    "normalise a copy inside an event function and are not 'solvers that normalise')",
    "ScipyIVP: M u_dot = h + W_g la_g + W_c la_c + W_tau la_tau and g_ddot = 0 at every output time (1e-7 relative)",
    "a run in which the solver announces non-convergence or a singular iteration matrix (RuntimeError / truncation "
    "warning) is inconclusive here (C21's subject); mechanisms are generated without redundant constraints and away "
    "from dead-point layouts",
]
CASES = {"quick": 130, "thorough": 5000}
SHARDS = {"quick": 10, "thorough": 16}
TECHNIQUE = "generated constrained mechanisms x solver x step size; validity predicates on the returned Solution recomputed through System.g / g_dot / g_ddot / M / h"
LEVEL_TEXT = (
    "Generated-input search over mechanisms, solvers and two decades of step size; the constraint residuals and "
    "equations of motion are recomputed independently from the returned states. Sampling, not proof."
)
LEVEL_NOTE = "trusted: System.g, g_dot, g_ddot, M, h, W_* (C04-C08, C14)"

SOLVERS = ["Rattle", "Rattle", "BackwardEuler", "DualStormerVerlet", "Moreau", "Moreau", "ScipyDAE", "ScipyIVP"]


@st.composite
def _case(draw):
    mech = draw(dynbuild.mechanism())
    # actuated mechanisms are integrated with ScipyIVP more often (its multipliers are computed a posteriori)
    solver = draw(st.sampled_from(SOLVERS + (["ScipyIVP"] * 8 if mech.get("drive", {}).get("type") in ("Motor", "PD", "PID") else [])))
    if solver.startswith("Scipy"):
        mech.pop("idle_contact", None)  # the scipy wrappers do not treat contacts (they warn, C21)
    dt = 10.0 ** draw(gen.f(-3.0, -1.3))
    nsteps = draw(st.integers(20, 60))
    if solver.startswith("Scipy"):
        dt = max(dt, 5e-3)
    return {"mech": mech, "solver": solver, "dt": dt, "nsteps": nsteps,
            # ScipyIVP computes accelerations and multipliers itself; the system may have been assembled without the
            # consistency solve (u_dot0, la_g0 left at zero)
            "assemble_consistent": draw(st.booleans()) if solver == "ScipyIVP" else draw(st.sampled_from([True, True, False])),
            "dsv_linear_solver": draw(st.sampled_from(["LU", "MINRES (matrix free)"])),
            "dsv_accelerated": draw(st.booleans())}


def strategy(tier):
    return _case()


def check(spec):
    res = Result()
    D = sysbuild.dense
    solver = spec["solver"]
    site = solver
    system, objs = dynbuild.build_mechanism(spec["mech"], consistent=spec.get("assemble_consistent", True))
    dt, n = spec["dt"], spec["nsteps"]
    t1 = system.t0 + n * dt
    feats = {"solver": solver, "mech": spec["mech"]["kind"], "dt": dt}
    kw = {}
    if solver == "DualStormerVerlet":
        kw["linear_solver"] = spec["dsv_linear_solver"]
        kw["accelerated"] = bool(spec.get("dsv_accelerated", True))
    if solver.startswith("Scipy"):
        kw.update(rtol=1e-8, atol=1e-10)
    try:
        sol, wrn = dynbuild.run(solver, system, t1, dt, **kw)
    except (RuntimeError, ValueError) as e:
        if "not converged" in str(e) or "did not converge" in str(e) or "singular" in str(e):
            res.inconclusive += 1
            res.label("solver_raised_not_converged:" + solver)
            return res
        raise
    if any("Returning solution up to" in w for w in wrn):
        res.inconclusive += 1
        res.label("truncated:" + solver)
        return res
    t, q, u = np.asarray(sol.t), np.asarray(sol.q), np.asarray(sol.u)
    nt = len(t)
    g = np.array([system.g(t[k], q[k]) for k in range(nt)])
    gd = np.array([system.g_dot(t[k], q[k], u[k]) for k in range(nt)])
    gmax = float(np.max(np.abs(g))) if g.size else 0.0
    gdmax = float(np.max(np.abs(gd))) if gd.size else 0.0

    def expect(sub, err, tol, detail=None):
        res.ok()
        if not np.isfinite(err) or err > tol:
            res.fail(sub, site, err, feats, detail or f"err={err:.3e} tol={tol:.1e} dt={dt:.2e}")

    if solver in ("Rattle", "BackwardEuler", "DualStormerVerlet"):
        expect("position_constraints_at_every_step", gmax, 1e-7)
    if solver == "Rattle":
        expect("velocity_constraints_at_every_step", gdmax, 1e-7)
    if solver == "Moreau":
        worst = 0.0
        for k in range(nt - 1):
            qm = q[k] + 0.5 * dt * system.q_dot(t[k], q[k], u[k])
            worst = max(worst, float(np.max(np.abs(system.g_dot(t[k] + 0.5 * dt, qm, u[k + 1])))) if system.nla_g else 0.0)
        expect("velocity_constraints_at_midpoint", worst, 1e-8)
    if solver == "ScipyDAE":
        scale = 1.0 + float(np.max(np.abs(q)))
        bound = 100 * (1e-10 + 1e-8 * scale)
        expect("dae_position_constraints_within_tolerance", gmax, bound)
        expect("dae_velocity_constraints_within_tolerance", gdmax, bound * (1 + float(np.max(np.abs(u)))))
        third = max(1, nt // 3)
        first = float(np.max(np.abs(g[:third]))) if g.size else 0.0
        last = float(np.max(np.abs(g[-third:]))) if g.size else 0.0
        expect("dae_no_drift", last, 3 * first + bound)
    if solver in ("Rattle", "BackwardEuler", "DualStormerVerlet", "Moreau"):
        worst = 0.0
        for sl in sysbuild.quat_slices(system):
            worst = max(worst, float(np.max(np.abs(np.linalg.norm(q[:, sl], axis=1) - 1.0))))
        expect("unit_quaternions_at_every_step", worst, 1e-12)
    if solver == "ScipyIVP":
        ud = np.asarray(sol.u_dot)
        la_g = np.asarray(sol.la_g)
        worst_eom, worst_acc = 0.0, 0.0
        # revisit the stored states backwards from the final one: the revolute joints' angle tracking is at the final
        # state after the run, and actuators / force laws on joints read the tracked angle (a jump from the final state
        # back to t0 would be taken for full rotations; this was finding F42 in the solver itself)
        for k in reversed(range(nt)):
            M = D(system.M(t[k], q[k]))
            rhs = system.h(t[k], q[k], u[k]) + D(system.W_g(t[k], q[k])) @ la_g[k]
            if system.nla_c:
                rhs = rhs + D(system.W_c(t[k], q[k])) @ system.la_c(t[k], q[k], u[k])
            if system.nla_tau:
                rhs = rhs + D(system.W_tau(t[k], q[k])) @ system.la_tau(t[k], q[k], u[k])
            r = M @ ud[k] - rhs
            sc = 1.0 + float(np.max(np.abs(rhs)))
            worst_eom = max(worst_eom, float(np.max(np.abs(r))) / sc)
            if system.nla_g:
                worst_acc = max(worst_acc, float(np.max(np.abs(system.g_ddot(t[k], q[k], u[k], ud[k])))) / (1.0 + float(np.max(np.abs(ud[k])))))
        expect("ivp_outputs_satisfy_equations_of_motion", worst_eom, 1e-7)
        expect("ivp_outputs_satisfy_acceleration_constraints", worst_acc, 1e-7)
    amp = float(np.max(np.abs(q - q[0]))) if nt else 0.0
    njoints = len(objs["joints"])
    res.nontrivial = (spec["mech"]["kind"] == "loop" or njoints >= 2) and amp > 0.1
    res.label(f"solver:{solver}", f"mech:{spec['mech']['kind']}", "dt<1e-2" if dt < 1e-2 else "dt>=1e-2")
    bm = spec["mech"].get("base_motion")
    if bm:
        res.label("rheonomic:" + solver, "rheonomic:rotating_base" if "axis" in bm else "rheonomic:translating_base")
    if not spec.get("assemble_consistent", True):
        res.label("assembled_without_consistency_solve:" + solver)
    if spec["mech"].get("p_scale"):
        res.label("non_unit_initial_quaternion")
    if spec["mech"].get("idle_contact"):
        res.label("idle_contact:" + solver)
    if "drive" in spec["mech"]:
        res.label("drive:" + spec["mech"]["drive"]["type"], "drive:" + solver)
    return res
