"""C13 Finite-element basis, quadrature and connectivity are correct."""

from fractions import Fraction

import numpy as np
from hypothesis import strategies as st

from harness import gen
from harness.runner import Result

PROPERTY = "C13"
LEVEL = "exploration"
RULE = (
    "case = (degree 1..5, element count 1..12, partition of [0,1]: uniform (data=None) or generated strictly "
    "increasing corner nodes, evaluation parameters (relative positions incl. 0 and 1 in a chosen element), a "
    "quadrature rule (n=1..10, interval [a,b] with a in [-1e3,1e3] and length log-uniform over 6 decades, an "
    "integer-coefficient polynomial of the maximal admissible degree), a mesh configuration (basis Lagrange / "
    "Lagrange_Disc, dim_q 1..7, dim_u, Gauss/Lobatto)). The whole finite grid degree x nel x basis (x n for the "
    "rules on [-1,1] and [0,1]) is also enumerated as static cases. Non-trivial: degree >= 2 and non-uniform "
    "partition."
)
ASSUMPTIONS = [
    "quadrature compared with the exact integral in rational arithmetic; tolerance 1e-12 * sum_k |c_k| max(|a|,|b|)^k (b-a) "
    "(the conditioning of the sum)",
    "basis identities to 1e-10 (degree <= 5, equally spaced nodes; Lebesgue constant < 4)",
    "basis derivative by Richardson differences inside an element, tolerance 1e-6 * max|N'|",
]
CASES = {"quick": 1500, "thorough": 60000}
SHARDS = {"quick": 4, "thorough": 16}
TECHNIQUE = "generated degrees/partitions/intervals/polynomials + exhaustive finite grid; algebraic identities, exact rational integrals, set-based connectivity model"
LEVEL_TEXT = (
    "Generated-input search plus exhaustive enumeration of the finite (degree, element count, basis, rule size) "
    "grid; oracles are exact (rational integrals, Kronecker/partition identities, a set model of which degrees of "
    "freedom neighbouring elements may share, polynomial reproduction through the connectivity arrays)."
)
LEVEL_NOTE = "trusted: Python Fraction arithmetic, numpy"


@st.composite
def _case(draw):
    degree = draw(st.integers(1, 5))
    nel = draw(st.integers(1, 12))
    uniform = draw(st.booleans())
    spec = {"degree": degree, "nel": nel, "uniform": uniform}
    if not uniform:
        # element lengths over two decades, or (graded meshes) over seven
        lo = -7 if draw(st.integers(0, 3)) == 0 else -2
        incr = [draw(gen.log_uniform(lo, 0)) for _ in range(nel)]
        tot = float(sum(incr))
        data = np.concatenate([[0.0], np.cumsum(incr) / tot])
        data[-1] = 1.0
        spec["data"] = data.tolist()
    spec["el"] = draw(st.integers(0, nel - 1))
    spec["s"] = sorted(set([0.0, 1.0] + [draw(gen.f(0.0, 1.0)) for _ in range(3)]))
    spec["xi_free"] = [draw(gen.f(0.0, 1.0)) for _ in range(3)]
    # quadrature
    n = draw(st.integers(1, 10))
    a = draw(gen.f(-1e3, 1e3)) if draw(st.booleans()) else draw(st.sampled_from([-1.0, 0.0]))
    L = draw(gen.log_uniform(-3, 3))
    spec["quad"] = {
        "n": n,
        "a": a,
        "b": a + L,
        "coef_g": [draw(st.integers(-9, 9)) for _ in range(2 * n)],
        "coef_l": [draw(st.integers(-9, 9)) for _ in range(max(0, 2 * n - 2))],
    }
    spec["mesh"] = {
        "basis": draw(st.sampled_from(["Lagrange", "Lagrange_Disc"])),
        "dim_q": draw(st.integers(1, 7)),
        "dim_u": draw(st.one_of(st.none(), st.integers(1, 6))),
        "quadrature": draw(st.sampled_from(["Gauss", "Lobatto"])),
        "nquadrature": draw(st.integers(2, 6)),
        "poly": [draw(st.integers(-5, 5)) for _ in range(degree + 1)],
    }
    return spec


def strategy(tier):
    return _case()


def static_cases(tier):
    out = []
    for degree in range(1, 6):
        for nel in range(1, 13):
            for basis in ("Lagrange", "Lagrange_Disc"):
                n = (degree + nel) % 10 + 1
                out.append({
                    "degree": degree, "nel": nel, "uniform": (nel % 2 == 0),
                    "data": np.linspace(0, 1, nel + 1).tolist() if nel % 3 else
                    (np.linspace(0, 1, nel + 1) ** 2).tolist(),
                    "el": nel // 2, "s": [0.0, 0.25, 1.0], "xi_free": [0.0, 0.5, 1.0],
                    "quad": {"n": n, "a": -1.0 if degree % 2 else 0.0, "b": 1.0,
                             "coef_g": [1] * (2 * n), "coef_l": [1] * max(0, 2 * n - 2)},
                    "mesh": {"basis": basis, "dim_q": 1 + (degree + nel) % 7, "dim_u": None if nel % 2 else 3,
                             "quadrature": "Gauss" if degree % 2 else "Lobatto", "nquadrature": degree + 1,
                             "poly": [1] * (degree + 1)},
                })
    return out


def _exact_integral(coef, a, b):
    fa, fb = Fraction(a), Fraction(b)
    tot = Fraction(0)
    for k, c in enumerate(coef):
        tot += Fraction(c) * (fb ** (k + 1) - fa ** (k + 1)) / (k + 1)
    return tot


def check(spec):
    from cardillo.rods.discretization.lagrange import LagrangeKnotVector, lagrange_basis1D
    from cardillo.rods.discretization.gauss import gauss, lobatto
    from cardillo.rods.discretization.mesh1D import Mesh1D

    res = Result()
    degree, nel = spec["degree"], spec["nel"]
    uniform = spec["uniform"]
    data = None if uniform else np.array(spec["data"], dtype=float)
    feats = {"degree": degree, "nel": nel, "uniform": uniform}
    corners = np.linspace(0, 1, nel + 1) if uniform else data

    def expect(sub, site, err, tol, detail=None):
        res.ok()
        if not np.isfinite(err) or err > tol:
            res.fail(sub, site, err, feats, detail or f"err={err:.3e} tol={tol:.1e}")

    kv = LagrangeKnotVector(degree, nel, data=data)
    ksite = "LagrangeKnotVector(data)" if not uniform else "LagrangeKnotVector(uniform)"

    # ---- element lookup -----------------------------------------------------------------
    xis = [float(corners[spec["el"]] + s * (corners[spec["el"] + 1] - corners[spec["el"]])) for s in spec["s"]]
    xis[0] = float(corners[spec["el"]])
    xis[-1] = float(corners[spec["el"] + 1])
    allxi = xis + list(spec["xi_free"]) + [float(c) for c in corners]
    for xi in allxi:
        el = int(kv.element_number(xi)[0])
        a, b = kv.element_interval(el)
        res.ok()
        if not (0 <= el < nel and a <= xi <= b):
            res.fail("element_contains", ksite, None, feats, f"xi={xi!r} el={el} interval=({a},{b})")
        res.ok()
        if abs(a - corners[el]) > 0 or abs(b - corners[el + 1]) > 0:
            res.fail("element_interval_is_partition_cell", ksite, max(abs(a - corners[el]), abs(b - corners[el + 1])), feats)

    # ---- basis functions ----------------------------------------------------------------
    for site, evalN in (
        ("lagrange_basis1D", lambda xi: lagrange_basis1D(degree, xi, 2, kv, squeeze=False)[:, 0, :]),
    ):
        for xi in allxi:
            N = evalN(xi)
            expect("partition_of_unity", site, abs(N[0].sum() - 1.0), 1e-10)
            el = int(kv.element_number(xi)[0])
            a, b = corners[el], corners[el + 1]
            L = b - a
            expect("zero_sum_derivative", site, abs(N[1].sum()) * L, 1e-8)
            expect("zero_sum_second_derivative", site, abs(N[2].sum()) * L * L, 1e-6)
        # Kronecker at the nodes of element el
        el = spec["el"]
        a, b = float(corners[el]), float(corners[el + 1])
        for j in range(degree + 1):
            xj = a + j * (b - a) / degree if j < degree else b
            if j == 0:
                xj = a
            N = evalN(xj)
            # at a shared corner the lookup may return the neighbouring element; evaluate what the lookup chose
            elj = int(kv.element_number(xj)[0])
            if elj != el:
                # xj is the left corner of el+... or right end: then it is node 0 (or degree) of element elj
                jj = 0 if abs(xj - corners[elj]) == 0 else degree
            else:
                jj = j
            want = np.zeros(degree + 1)
            want[jj] = 1.0
            # the node position a + j (b - a) / degree is itself rounded: its relative position inside the element is
            # uncertain by ulp(x) / (b - a), and the basis has slopes of order degree^2 there
            cond = 8 * degree * degree * float(np.spacing(max(abs(a), abs(b)))) / (b - a)
            expect("kronecker", site, float(np.max(np.abs(N[0] - want))), 1e-10 + cond, f"node {j} of element {el}")
        # derivative vs differences strictly inside the element
        for s in (0.3, 0.62):
            x0 = a + s * (b - a)
            h = 0.02 * (b - a)
            f = lambda x: evalN(x)[0]
            d1 = (f(x0 + h) - f(x0 - h)) / (2 * h)
            d2 = (f(x0 + h / 2) - f(x0 - h / 2)) / h
            num = (4 * d2 - d1) / 3
            N = evalN(x0)
            expect("derivative_matches", site, float(np.max(np.abs(N[1] - num))) * (b - a), 1e-6 * (1 + degree**2) )

    # ---- quadrature --------------------------------------------------------------------
    qd = spec["quad"]
    n, a, b = qd["n"], float(qd["a"]), float(qd["b"])
    m = max(abs(a), abs(b))
    fq = dict(feats, n=n)
    for rule, fun, coef in (("gauss", gauss, qd["coef_g"]), ("lobatto", lobatto, qd["coef_l"])):
        if rule == "lobatto" and n < 2:
            continue
        pts, wts = fun(n, interval=np.array([a, b]))
        exact = float(_exact_integral(coef, a, b))
        val = float(sum(w * sum(c * p**k for k, c in enumerate(coef)) for p, w in zip(pts, wts)))
        cond = sum(abs(c) * m**k for k, c in enumerate(coef)) * (b - a) + 1e-300
        res.ok()
        if abs(val - exact) > 1e-12 * cond:
            res.fail(f"{rule}_exact", rule, abs(val - exact) / cond, fq, f"n={n} [{a},{b}] deg={len(coef)-1}")
        res.ok()
        if abs(float(np.sum(wts)) - (b - a)) > 1e-13 * (b - a) * n or np.any(wts <= 0):
            res.fail(f"{rule}_weights", rule, abs(float(np.sum(wts)) - (b - a)), fq)
        res.ok()
        if np.any(pts < a - 1e-13 * m) or np.any(pts > b + 1e-13 * m) or len(pts) != n:
            res.fail(f"{rule}_points_in_interval", rule, None, fq)

    # ---- mesh connectivity ---------------------------------------------------------------
    ms = spec["mesh"]
    dq, du = ms["dim_q"], ms["dim_u"]
    mesh = Mesh1D(kv, ms["nquadrature"], dim_q=dq, derivative_order=1, basis=ms["basis"],
                  quadrature=ms["quadrature"], dim_u=du)
    msite = f"Mesh1D({ms['basis']})"
    disc = ms["basis"] == "Lagrange_Disc"
    nn = (degree + 1) * nel if disc else degree * nel + 1
    expect("node_count", msite, abs(mesh.nnodes - nn), 0)
    expect("dof_count", msite, abs(mesh.nq - nn * dq), 0)
    node_of = (lambda el, a_: el * (degree + 1) + a_) if disc else (lambda el, a_: el * degree + a_)
    for DOF, nodal, nodal_el, dim, tag in (
        (mesh.elDOF, mesh.nodalDOF, mesh.nodalDOF_element, dq, "q"),
        (mesh.elDOF_u, mesh.nodalDOF_u, mesh.nodalDOF_element_u, dq if du is None else du, "u"),
    ):
        sets = [set(int(i) for i in DOF[el]) for el in range(nel)]
        res.ok()
        if set().union(*sets) != set(range(nn * dim)):
            res.fail("connectivity_covers_all_dofs", f"{msite}.elDOF_{tag}", None, feats)
        for e1 in range(nel):
            for e2 in range(e1 + 1, nel):
                inter = sets[e1] & sets[e2]
                if not disc and e2 == e1 + 1:
                    want = set(int(i) for i in nodal[node_of(e2, 0)])
                else:
                    want = set()
                res.ok()
                if inter != want:
                    res.fail("neighbours_share_exactly_interface_nodes", f"{msite}.elDOF_{tag}", None, feats,
                             f"elements {e1},{e2}: shared {sorted(inter)} expected {sorted(want)}")
        for el in range(nel):
            for a_ in range(degree + 1):
                res.ok()
                if list(DOF[el][nodal_el[a_]]) != list(nodal[node_of(el, a_)]):
                    res.fail("element_nodal_dofs_match_global_nodal_dofs", f"{msite}.elDOF_{tag}", None, feats,
                             f"el {el} node {a_}")
    # quadrature points in their elements, weights sum to the element length, N consistent with the basis
    for el in range(nel):
        a, b = float(corners[el]), float(corners[el + 1])
        res.ok()
        if np.any(mesh.qp[el] < a - 1e-14) or np.any(mesh.qp[el] > b + 1e-14):
            res.fail("quadrature_points_in_element", msite, None, feats)
        expect("quadrature_weights_sum_to_element_length", msite, abs(mesh.wp[el].sum() - (b - a)), 1e-13)
        expect("partition_of_unity", msite + ".N", float(np.max(np.abs(mesh.N[el].sum(axis=1) - 1))), 1e-10)
        expect("zero_sum_derivative", msite + ".N_xi", float(np.max(np.abs(mesh.N_xi[el].sum(axis=1)))) * (b - a), 1e-8)
    # polynomial reproduction through the connectivity: nodal values of p, interpolated at random xi
    poly = ms["poly"]
    p = lambda x: sum(c * x**k for k, c in enumerate(poly))
    q = np.zeros(mesh.nq)
    for el in range(nel):
        a, b = float(corners[el]), float(corners[el + 1])
        for a_ in range(degree + 1):
            xn = a + a_ * (b - a) / degree
            for d in range(dq):
                q[mesh.nodalDOF[node_of(el, a_)][d]] = (d + 1) * p(xn)
    for xi in allxi:
        el = int(kv.element_number(xi)[0])
        Nb = np.asarray(mesh.eval_basis(xi, el))
        N0 = Nb[0].reshape(-1)
        qe = q[mesh.elDOF[el]]
        for d in range(dq):
            val = float(N0 @ qe[mesh.nodalDOF_element[:, d]])
            expect("interpolation_reproduces_polynomials", msite + ".eval_basis", abs(val - (d + 1) * p(xi)),
                   1e-9 * (1 + sum(abs(c) for c in poly)) * (d + 1))

    # an element boundary belongs to both neighbours: with the element prescribed explicitly, either side reproduces p
    for k in range(1, nel):
        xi = float(corners[k])
        for el in (k - 1, k):
            Nb = np.asarray(mesh.eval_basis(xi, el))
            N0 = Nb[0].reshape(-1)
            qe = q[mesh.elDOF[el]]
            val = float(N0 @ qe[mesh.nodalDOF_element[:, 0]])
            expect("interpolation_reproduces_polynomials", msite + ".eval_basis(xi=boundary, el explicit)", abs(val - p(xi)),
                   1e-9 * (1 + sum(abs(c) for c in poly)), f"boundary {k}, element {el}")

    res.nontrivial = degree >= 2 and not uniform
    res.label(f"degree={degree}", "uniform" if uniform else "nonuniform", ms["basis"], ms["quadrature"])
    res.label(f"nel={'1' if nel == 1 else '2-4' if nel <= 4 else '5-12'}")
    return res
