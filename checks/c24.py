"""C24 Restarting a simulation from an intermediate state reproduces the run."""

import numpy as np
from hypothesis import strategies as st

from harness import gen, dynbuild, sysbuild, build
from harness.runner import Result, quiet

PROPERTY = "C24"
LEVEL = "exploration"
RULE = (
    "case = system in {point mass with two-point force laws (the repository's restart script), open chain of 1-3 "
    "rigid bodies with Revolute / Spherical / ... joints, point-mass chain with FixedDistance, chain with a spring on "
    "its first revolute joint spinning through several turns, spheres bouncing / sliding on a plane with optional "
    "sphere-sphere contacts} x solver in {Moreau, Rattle, BackwardEuler, DualStormerVerlet (smooth), ScipyIVP "
    "(smooth)} x step size x 16..30 steps x split step k (every k in the thorough tier through the enumeration of "
    "k; quick samples k). Procedure: one uninterrupted run; the state reached at step k is given to a deepcopy of "
    "the system through set_new_initial_state and the remaining steps are integrated. Non-trivial: 0 < k < last and "
    "the system has a joint between two moving bodies or a contact."
)
ASSUMPTIONS = [
    "solver tolerances 1e-10; trajectories must agree to 1e-6*(1+|q|) (1e-5 for schemes that warm-start multipliers); "
    "quaternions are compared up to sign",
    "procedure as a user would do it: a fresh system is simulated to the split time, deep-copied, the copy is given "
    "the reached state with set_new_initial_state and integrated to the end; the reference is one uninterrupted run",
    "a split state that the assembly legitimately cannot accept is skipped and counted: a contact penetrating by "
    "more than 1e-9 (Moreau's midpoint rule produces such states by design), or bilateral constraints violated on "
    "position or velocity level by more than 1e-9 (Moreau drifts in position, BackwardEuler's difference-quotient "
    "velocity does not satisfy g_dot = 0); restart of constrained systems is therefore exercised with Rattle, "
    "DualStormerVerlet and ScipyIVP",
    "model unchanged: at a fixed probe state the joint residuals, the revolute angle (absolute value, after walking "
    "both systems along the same path) and contact gaps / slip velocities of the re-initialised copy equal those of "
    "the original system to 1e-9",
]
CASES = {"quick": 60, "thorough": 1500}
SHARDS = {"quick": 12, "thorough": 16}
TECHNIQUE = "generated system x solver x split step; metamorphic relation (split run = uninterrupted run) and model-equality probes between original and re-initialised system"
LEVEL_TEXT = (
    "Generated-input search with a metamorphic oracle: splitting a run at any step and restarting from a "
    "re-initialised copy must reproduce the uninterrupted trajectory, and the copy must describe the same model. "
    "Sampling; the thorough tier enumerates all split steps of each generated run."
)
LEVEL_NOTE = "trusted: the solvers' determinism for identical inputs; numpy"


@st.composite
def _case(draw):
    kind = draw(st.sampled_from(["mechanism", "mechanism", "revolute_spring", "scene", "scene", "point_laws"]))
    spec = {"kind": kind, "nsteps": draw(st.integers(16, 30)), "dt": 10.0 ** draw(gen.f(-2.7, -2.0)),
            "kfrac": draw(gen.f(0.0, 1.0)),
            # initial time of the system: 0, or -(k dt) so that the split time is exactly 0.0
            "t0_mode": draw(st.sampled_from(["zero", "zero", "split_at_zero", "offset"]))}
    if kind == "mechanism":
        spec["mech"] = draw(dynbuild.mechanism(closed_loops=False))
        # Moreau / BackwardEuler states violate g or g_dot and cannot be restarted (see ASSUMPTIONS): sampled rarely
        spec["solver"] = draw(st.sampled_from(["Rattle", "Rattle", "Rattle", "DualStormerVerlet", "ScipyIVP", "BackwardEuler", "Moreau"]))
    elif kind == "revolute_spring":
        spec["rate"] = draw(gen.f(15.0, 40.0)) * draw(st.sampled_from([1, -1]))
        spec["k"] = draw(gen.f(0.5, 5.0))
        spec["axis"] = draw(st.integers(0, 2))
        spec["angle0"] = draw(gen.f(-1, 1))
        spec["dt"] = 0.01
        spec["nsteps"] = draw(st.integers(40, 60))
        spec["solver"] = draw(st.sampled_from(["Rattle", "Rattle", "ScipyIVP", "DualStormerVerlet"]))
        spec["l_ref"] = draw(st.sampled_from([0.0, None]))
    elif kind == "scene":
        spec["scene"] = draw(dynbuild.scene(max_spheres=2))
        spec["solver"] = draw(st.sampled_from(["Rattle", "BackwardEuler", "Moreau"]))
    else:
        spec["law"] = draw(st.sampled_from(["Spring", "KelvinVoigt", "Maxwell"]))
        spec["compliance"] = draw(st.booleans())
        spec["k"] = draw(gen.f(5, 50))
        spec["d"] = draw(gen.f(0.1, 3))
        spec["v"] = [draw(gen.f(-1, 1)) for _ in range(3)]
        spec["solver"] = draw(st.sampled_from(["Rattle", "BackwardEuler", "Moreau", "ScipyIVP"]))
        # reference lengths given explicitly or left to the default (length in the initial configuration); initial
        # position given as a float array or, as scripts often do, as an integer-typed array
        spec["l_ref"] = draw(st.sampled_from([1.0, None]))
        spec["int_q0"] = draw(st.booleans())
    return spec


def strategy(tier):
    return _case()


def build_system(spec):
    from cardillo.discrete import PointMass, RigidBody, Frame
    from cardillo.forces import Force

    kind = spec["kind"]
    opts = dynbuild.options()
    n_, dt_ = spec["nsteps"], spec["dt"]
    k_ = min(max(int(round(spec["kfrac"] * n_)), 0), n_ - 1)
    t0 = {"zero": 0.0, "split_at_zero": -(dt_ * k_), "offset": 0.37}[spec.get("t0_mode", "zero")]
    if kind == "mechanism":
        system, objs = dynbuild.build_mechanism(spec["mech"], t0=t0, opts=opts)
        return system, {"two_moving": len(spec["mech"]["bodies"]) >= 2, "contact": False}
    if kind == "scene":
        system, objs = dynbuild.build_scene(spec["scene"], t0=t0)
        return system, {"two_moving": False, "contact": True}
    system = sysbuild.new_system(t0)
    if kind == "revolute_spring":
        rb = RigidBody(1.0, np.diag([0.1, 0.15, 0.2]), q0=np.array([0.3, 0.1, -0.2, 1.0, 0, 0, 0]), name="rotor")
        js = {"type": "Revolute", "axis": spec["axis"], "angle0": spec["angle0"], "r_OJ0": [0.0, 0.0, 0.0], "psi_J": None}
        e = np.eye(3)[spec["axis"]]
        w = spec["rate"] * e
        rb.u0 = np.concatenate([np.cross(w, rb.q0[:3]), w])
        system.add(rb)
        joint = sysbuild.make_joint(js, system.origin, rb)
        system.add(joint)
        system.add(sysbuild.make_force_law({"type": "Spring", "k": spec["k"], "l_ref": spec.get("l_ref", 0.0), "compliance": False}, joint))
        info = {"two_moving": False, "contact": False, "revolute": joint}
    else:
        q0 = np.array([1, 0, 0]) if spec.get("int_q0") else np.array([1.0, 0.3, -0.2])
        pm = PointMass(1.0, q0=q0, u0=np.array(spec["v"], dtype=float), name="pm")
        system.add(pm)
        system.add(Force(np.array([0.0, 0.0, -9.81]), pm, name="gravity"))
        for i, a in enumerate([[0.0, 0.0, 0.0], [2.0, 1.0, 1.0]]):
            fr = Frame(r_OP=np.array(a, dtype=float), name=f"anchor{i}")
            system.add(fr)
            tpi = sysbuild.make_tpi({"B1": [0.0] * 3, "B2": [0.0] * 3, "name": f"tpi{i}"}, fr, pm)
            system.add(tpi)
            el = sysbuild.make_force_law({"type": spec["law"] if i == 0 else "Spring", "k": spec["k"], "d": spec["d"],
                                          "l_ref": spec.get("l_ref", 1.0), "compliance": spec["compliance"]}, tpi)
            el.name = f"law{i}"
            system.add(el)
        info = {"two_moving": False, "contact": False}
    with quiet():
        system.assemble(options=opts)
    return system, info


def _qdiff(system, a, b):
    d = a - b
    for sl in sysbuild.quat_slices(system):
        s = a[..., sl] + b[..., sl]
        m = a[..., sl] - b[..., sl]
        flip = np.linalg.norm(s, axis=-1) < np.linalg.norm(m, axis=-1)
        d[..., sl] = np.where(flip[..., None], s, m) if d.ndim > 1 else (s if flip else m)
    return d


def check(spec):
    res = Result()
    solver = spec["solver"]
    site = f"{solver}x{spec['kind']}"
    feats = {"solver": solver, "kind": spec["kind"]}
    dt, n = spec["dt"], spec["nsteps"]
    kw = {"rtol": 1e-9, "atol": 1e-11} if solver == "ScipyIVP" else {}
    opts = dynbuild.options()
    try:
        system, info = build_system(spec)
    except AssertionError as e:
        if "does not converge" in str(e):
            res.inconclusive += 1
            return res
        raise
    try:
        full, wrn = dynbuild.run(solver, system, system.t0 + n * dt, dt, **kw)
    except RuntimeError as e:
        if "not converged" in str(e):
            res.inconclusive += 1
            res.label("solver_raised_not_converged")
            return res
        raise
    if any("Returning solution up to" in w for w in wrn) or len(full.t) != n + 1:
        res.inconclusive += 1
        res.label("truncated")
        return res
    k = int(round(spec["kfrac"] * n))
    k = min(max(k, 0), n - 1)
    tq, qk, uk = float(full.t[k]), np.asarray(full.q[k], dtype=float), np.asarray(full.u[k], dtype=float)
    if system.nla_N and np.any(system.g_N(tq, qk) < -1e-9):
        res.label("split_state_penetrates_skipped")
        res.inconclusive += 1
        return res
    if system.nla_N:
        gN_, gNd_ = system.g_N(tq, qk), system.g_N_dot(tq, qk, uk)
        closed_ = np.isclose(gN_, 0.0, atol=1e-8)
        if np.any(closed_ & (gNd_ < 0) & ~np.isclose(gNd_, 0.0, atol=1e-8)):
            # a closed contact that still approaches (the position-level BackwardEuler step ends an impact this way):
            # assembly rejects such initial states by design (C16)
            res.label("split_state_approaching_closed_contact_skipped:" + solver)
            res.inconclusive += 1
            return res
    if system.nla_g and (np.max(np.abs(system.g(tq, qk))) > 1e-9 or np.max(np.abs(system.g_dot(tq, qk, uk))) > 1e-9):
        # Moreau (position drift) and BackwardEuler (velocity level) do not produce states that satisfy the
        # constraints on both levels; assembly rejects such initial states by design (C16)
        res.label("split_state_violates_constraints_skipped:" + solver)
        res.inconclusive += 1
        return res

    # ---- simulate a fresh system to the split time, then re-initialise a copy of it -------------------
    system, info = build_system(spec)
    if k > 0:
        part, _ = dynbuild.run(solver, system, system.t0 + k * dt, dt, **kw)
        if len(part.t) != k + 1 or np.max(np.abs(np.asarray(part.q[-1]) - qk)) > (1e-6 if solver == "ScipyIVP" else 1e-12) * (1 + np.max(np.abs(qk))):
            res.fail("run_to_split_time_equals_prefix_of_full_run", site, None, feats, f"split step {k}")
            return res
    copy = system.deepcopy()
    try:
        with quiet():
            copy.set_new_initial_state(qk.copy(), uk.copy(), tq, options=opts)  # an exception here is a failure 'raises'
    except AssertionError as e:
        if "does not converge" in str(e):
            # the consistency solve announces that its fixed-point iteration stalled (frictional contact scenes):
            # nothing to restart; the announcement itself is C16's / C21's subject
            res.inconclusive += 1
            res.label("restart_consistency_solve_stalled")
            return res
        raise
    res.ok()

    # ---- the copy describes the same model ---------------------------------------------------------
    # (probes run on further deep copies: Revolute.l is stateful and must not see the far probe state before
    # the restart run)
    run_copy = copy
    system, copy = system.deepcopy(), copy.deepcopy()
    if "revolute" in info:
        info = dict(info, revolute=system.contributions_map[info["revolute"].name])
    probe_q = np.asarray(full.q[n], dtype=float)
    probe_u = np.asarray(full.u[n], dtype=float)
    tp = float(full.t[n])
    for name, f in (("g", lambda S: S.g(tp, probe_q)), ("g_dot", lambda S: S.g_dot(tp, probe_q, probe_u)),
                    ("g_N", lambda S: S.g_N(tp, probe_q)),
                    ("h", lambda S: S.h(tp, probe_q, probe_u)), ("la_c", lambda S: S.la_c(tp, probe_q, probe_u))):
        a, b = np.asarray(f(system), dtype=float), np.asarray(f(copy), dtype=float)
        res.ok()
        if a.shape != b.shape or (a.size and float(np.max(np.abs(a - b))) > 1e-9 * (1 + float(np.max(np.abs(a))))):
            res.fail("model_unchanged:" + name, site, float(np.max(np.abs(a - b))) if a.shape == b.shape and a.size else None, feats,
                     f"split step {k}")
    if system.nla_F:
        a, b = np.linalg.norm(system.gamma_F(tp, probe_q, probe_u).reshape(-1, 2), axis=1), np.linalg.norm(
            copy.gamma_F(tp, probe_q, probe_u).reshape(-1, 2), axis=1)
        res.ok()
        if float(np.max(np.abs(a - b))) > 1e-9 * (1 + float(np.max(a))):
            res.fail("model_unchanged:slip_speed", site, float(np.max(np.abs(a - b))), feats)
    if "revolute" in info:
        # absolute joint angle: the original has tracked the run, the copy starts at the split state
        jo = info["revolute"]
        jc = copy.contributions_map[jo.name]
        # both joints are walked along the remaining path of the uninterrupted run; the original has tracked the
        # run up to the split time, the copy was re-initialised there
        path = [np.asarray(full.q[i], dtype=float) for i in range(k, n + 1)]
        ao = ac = None
        for i, qq in enumerate(path):
            ao = float(jo.l(float(full.t[k + i]), qq[jo.qDOF]))
            ac = float(jc.l(float(full.t[k + i]), qq[jc.qDOF]))
        res.ok()
        if abs(ao - ac) > 1e-9 * (1 + abs(ao)):
            res.fail("model_unchanged:revolute_angle", site, abs(ao - ac), feats, f"original {ao:.6f}, copy {ac:.6f}, split step {k}")
        res.label("revolute_turns>=1" if abs(ao - spec["angle0"]) > 2 * np.pi else "revolute_turns<1")

    # ---- the split run reproduces the uninterrupted one ----------------------------------------------
    m = n - k
    try:
        rest, wrn2 = dynbuild.run(solver, run_copy, tq + m * dt, dt, **kw)
    except RuntimeError as e:
        if "not converged" in str(e):
            res.fail("restart_runs", site, None, feats, f"restart at step {k} did not converge: {e}")
            return res
        raise
    res.ok()
    if len(rest.t) != m + 1:
        res.fail("restart_runs", site, None, feats, f"restart returned {len(rest.t)} instants, expected {m + 1}")
        return res
    qa, qb = np.asarray(full.q)[k:], np.asarray(rest.q)
    ua, ub = np.asarray(full.u)[k:], np.asarray(rest.u)
    tol = 1e-5 if solver in ("Moreau", "BackwardEuler", "ScipyIVP") else 1e-6
    eq = float(np.max(np.abs(_qdiff(system, qa.copy(), qb.copy()))))
    eu = float(np.max(np.abs(ua - ub)))
    sc = 1.0 + float(np.max(np.abs(qa))) + float(np.max(np.abs(ua)))
    res.ok()
    if max(eq, eu) > tol * sc:
        res.fail("split_run_equals_uninterrupted_run", site, max(eq, eu), feats, f"split step {k} of {n}: |dq|={eq:.3e} |du|={eu:.3e}")
    res.nontrivial = 0 < k < n - 1 and (info["two_moving"] or info["contact"] or "revolute" in info)
    res.label(f"solver:{solver}", f"kind:{spec['kind']}", "k=0" if k == 0 else "k>0", "t0:" + spec.get("t0_mode", "zero"))
    return res
