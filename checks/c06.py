"""C06 Contact gaps and slip velocities are geometric and consistently differentiated."""

import numpy as np
from hypothesis import strategies as st

from harness import gen, build, sysbuild
from harness.numdiff import jacobian, directional, compare
from harness.runner import Result

PROPERTY = "C06"
LEVEL = "exploration"
RULE = (
    "case = contact in {Sphere2Plane (plane frame with constant random orientation, fixed or translating with a "
    "generated r(t)), Sphere2Sphere} x subsystems from {RigidBody, PointMass, prescribed-motion Frame} x radius "
    "(0 allowed for the plane contact), body-fixed offset of the sphere centre, friction coefficient 0 or in (0,1], "
    "anisotropy, restitution x state (t, q = q0 + perturbation with non-unit quaternions, u, u_dot, multipliers). "
    "Non-trivial: friction present, radius > 0, the body rotates and the tangential relative velocity is non-zero."
)
ASSUMPTIONS = [
    "geometric oracle computed in the harness from rigid-body formulas (independent quaternion-to-matrix routine): "
    "signed centre-plane distance minus r; centre distance minus r1+r2; slip = tangential part of the relative "
    "velocity of the two material points at the contact point; for Sphere2Sphere the tangent basis is not unique, "
    "so the slip is compared by its norm (and through the Jacobian/hierarchy clauses)",
    "planes have constant orientation (the statement's restriction); sphere centres stay >= 0.3 apart",
    "a derivative the System exposes may raise NotImplementedError; any other exception is a failure",
    "differencing tolerance 1e-6*(1+max|value|); the acceleration-level clauses are asserted at two velocities at the same "
    "(t, q), the second one after everything else was evaluated at the first (stale per-configuration memoisation)",
]
CASES = {"quick": 500, "thorough": 30000}
SHARDS = {"quick": 8, "thorough": 16}
TECHNIQUE = "generated contact scenes and states; independent geometric oracle for gap and slip, hierarchy differenced along the kinematic flow, Richardson partials through System"
LEVEL_TEXT = (
    "Generated-input search over contact type x subsystem pairing x geometry x state with an independent geometric "
    "reference for gap and slip and a differential oracle for every rate and Jacobian. Sampling, not proof."
)
LEVEL_NOTE = "trusted: harness rigid-body formulas; System.g_N / gamma_F as primal references for their derivatives"


@st.composite
def _sub(draw):
    k = draw(st.sampled_from(["rigid", "rigid", "rigid", "point", "frame"]))
    if k == "rigid":
        return draw(build.rigid_body())
    if k == "point":
        return draw(build.point_mass())
    return draw(build.frame_body(moving=True, rotating=draw(st.booleans())))


@st.composite
def _case(draw):
    kind = draw(st.sampled_from(["S2P", "S2S"]))
    mu = draw(st.sampled_from([0.0, None, None, None]))
    if mu is None:
        mu = draw(gen.f(0.05, 1.0))
    spec = {"kind": kind, "mu": mu, "e_N": draw(gen.f(0, 1)), "e_F": draw(gen.f(0, 1)), "t0": draw(gen.f(0, 1))}
    if kind == "S2P":
        spec["plane"] = draw(build.frame_body(moving=draw(st.booleans()), rotating=False))
        spec["sub"] = draw(_sub())
        spec["r"] = draw(st.sampled_from([0.0, None, None, None])) or draw(gen.f(0.05, 1.5))
        spec["B_r_CP"] = draw(gen.vec3(-2, 0)) if spec["sub"]["kind"] != "point" else [0.0, 0.0, 0.0]
        spec["anisotropy"] = [draw(gen.f(0.3, 2.0)), draw(gen.f(0.3, 2.0))] if draw(st.booleans()) else [1.0, 1.0]
    else:
        s1, s2 = draw(_sub()), draw(_sub())
        if s1["kind"] == "frame" and s2["kind"] == "frame":
            s2 = draw(build.rigid_body())
        # keep the centres apart: shift body 2 (for frames shift c0)
        d = np.array(draw(gen.unit_vec3())) * draw(gen.f(1.5, 3.0))
        for s, sh in ((s1, -0.5 * d), (s2, 0.5 * d)):
            if s["kind"] == "frame":
                s["motion"]["c0"] = sh.tolist()
                for k in ("c1", "c2", "a"):
                    if k in s["motion"]:
                        s["motion"][k] = (0.2 * np.array(s["motion"][k])).tolist()
            else:
                s["r"] = sh.tolist()
        spec["s1"], spec["s2"] = s1, s2
        spec["r1"], spec["r2"] = draw(gen.f(0.05, 0.6)), draw(gen.f(0.05, 0.6))
    spec["t"] = draw(gen.f(0.0, 1.0))
    spec["dq"] = [draw(gen.f(-0.3, 0.3)) for _ in range(14)]
    spec["u"] = [draw(gen.f(-2, 2)) for _ in range(12)]
    spec["u_dot"] = [draw(gen.f(-2, 2)) for _ in range(12)]
    spec["la_N"] = draw(gen.f(-2, 2))
    spec["la_F"] = [draw(gen.f(-2, 2)), draw(gen.f(-2, 2))]
    # order in which the subsystems are added to the System (the contact's second subsystem may come first)
    spec["add_reversed"] = draw(st.booleans())
    return spec


def strategy(tier):
    return _case()


def _pose_vel(bs, body, t, q, u):
    """Independent kinematics of a subsystem: centre r, rotation R, velocity v, angular velocity w (inertial)."""
    if bs["kind"] == "rigid":
        R = gen.quat_to_R(q[3:7])
        return q[:3].copy(), R, u[:3].copy(), R @ u[3:6]
    if bs["kind"] == "point":
        return q[:3].copy(), np.eye(3), u[:3].copy(), np.zeros(3)
    f = build.motion_functions(bs["motion"])
    A = f["A"](t)
    S = f["A_t"](t) @ A.T
    w = np.array([S[2, 1], S[0, 2], S[1, 0]])
    return f["r"](t), A, f["r_t"](t), w


def build_case(spec):
    from cardillo.contacts import Sphere2Plane, Sphere2Sphere

    system = sysbuild.new_system(spec["t0"])
    if spec["kind"] == "S2P":
        plane = build.make_body(spec["plane"], name="plane")
        sub = build.make_body(spec["sub"], name="sub")
        c = Sphere2Plane(plane, sub, mu=spec["mu"], r=spec["r"], B_r_CP=np.array(spec["B_r_CP"], dtype=float),
                         e_N=spec["e_N"], e_F=spec["e_F"], anisotropy=np.array(spec["anisotropy"], dtype=float))
        system.add(*((sub, plane, c) if spec.get("add_reversed") else (plane, sub, c)))
        subs = [sub]
    else:
        s1 = build.make_body(spec["s1"], name="s1")
        s2 = build.make_body(spec["s2"], name="s2")
        c = Sphere2Sphere(s1, s2, spec["r1"], spec["r2"], spec["mu"], e_N=spec["e_N"], e_F=spec["e_F"])
        system.add(*((s2, s1, c) if spec.get("add_reversed") else (s1, s2, c)))
        subs = [s1, s2]
    sysbuild.assemble(system)
    return system, c, subs


def check(spec):
    res = Result()
    system, contact, subs = build_case(spec)
    D = sysbuild.dense
    kind = spec["kind"]
    bss = [spec["sub"]] if kind == "S2P" else [spec["s1"], spec["s2"]]
    site = "Sphere2Plane" if kind == "S2P" else "Sphere2Sphere"
    mu = spec["mu"]
    feats = {"contact": kind, "mu": mu, "subs": "+".join(b["kind"] for b in bss)}
    nq, nu = system.nq, system.nu
    t = float(spec["t"])
    q = system.q0 + np.array(spec["dq"][:nq], dtype=float)
    u = np.array(spec["u"][:nu], dtype=float)
    ud = np.array(spec["u_dot"][:nu], dtype=float)
    la_N = np.array([spec["la_N"]])
    la_F = np.array(spec["la_F"][: system.nla_F], dtype=float)
    qd = system.q_dot(t, q, u)
    hq = build.fd_steps(q, sysbuild.quat_slices(system))
    hu = build.fd_steps(u)

    def cmp(sub, analytic, num, dis):
        compare(res, sub, site, analytic, num, dis, feats, tol=1e-6)

    def expect(sub, err, scale=1.0):
        res.ok()
        if not np.isfinite(err) or err > 1e-10 * (1.0 + scale):
            res.fail(sub, site, err, feats, f"err={err:.3e}")

    first = {"g_N": np.array(system.g_N(t, q)), "g_N_dot": np.array(system.g_N_dot(t, q, u)), "W_N": D(system.W_N(t, q)).copy()}
    if mu > 0:
        first.update(gamma_F=np.array(system.gamma_F(t, q, u)), W_F=D(system.W_F(t, q)).copy())

    # ---- independent geometric oracle ------------------------------------------------------
    kin = []
    for bs, body in zip(bss, subs):
        ql = q[body.qDOF] if len(body.q0) else np.zeros(0)
        ul = u[body.uDOF] if len(body.u0) else np.zeros(0)
        kin.append(_pose_vel(bs, body, t, ql, ul))
    gN = system.g_N(t, q)
    rotating = False
    vt_norm = 0.0
    if kind == "S2P":
        f = build.motion_functions(spec["plane"]["motion"])
        A0 = f["A"](t)
        n, t1, t2 = A0[:, 2], A0[:, 0], A0[:, 1]
        rc, R, v, w = kin[0]
        B = np.array(spec["B_r_CP"], dtype=float)
        c = rc + R @ B
        vc = v + np.cross(w, R @ B)
        r = spec["r"]
        expect("gap_is_signed_distance", abs(gN[0] - (n @ (c - f["r"](t)) - r)), abs(gN[0]))
        if mu > 0:
            vS = vc + np.cross(w, -r * n)
            rel = vS - f["r_t"](t)
            ref = np.array(spec["anisotropy"]) * np.array([t1 @ rel, t2 @ rel])
            gF = system.gamma_F(t, q, u)
            expect("slip_is_tangential_relative_velocity", float(np.max(np.abs(gF - ref))), float(np.max(np.abs(ref))))
            vt_norm = float(np.linalg.norm(ref))
        rotating = float(np.linalg.norm(w)) > 1e-3
    else:
        (c1, R1, v1, w1), (c2, R2, v2, w2) = kin
        d = c2 - c1
        dist = float(np.linalg.norm(d))
        if dist < 0.3:
            res.label("centres_too_close_skipped")
            return res
        n = d / dist
        expect("gap_is_signed_distance", abs(gN[0] - (dist - spec["r1"] - spec["r2"])), abs(gN[0]))
        if mu > 0:
            vP1 = v1 + np.cross(w1, spec["r1"] * n)
            vP2 = v2 + np.cross(w2, -spec["r2"] * n)
            rel = vP2 - vP1
            tang = rel - n * (n @ rel)
            gF = system.gamma_F(t, q, u)
            expect("slip_is_tangential_relative_velocity", abs(float(np.linalg.norm(gF)) - float(np.linalg.norm(tang))),
                   float(np.linalg.norm(tang)))
            vt_norm = float(np.linalg.norm(tang))
        rotating = max(float(np.linalg.norm(w1)), float(np.linalg.norm(w2))) > 1e-3

    # ---- hierarchy -------------------------------------------------------------------------
    num, dis = directional(lambda e: system.g_N(t + e, q + e * qd), 1e-3)
    cmp("g_N_dot_is_time_derivative_of_g_N", system.g_N_dot(t, q, u), num, dis)
    num, dis = directional(lambda e: system.g_N_dot(t + e, q + e * qd, u + e * ud), 1e-3)
    cmp("g_N_ddot_is_time_derivative_of_g_N_dot", system.g_N_ddot(t, q, u, ud), num, dis)
    if nu:
        num, dis = jacobian(lambda u_: system.g_N_dot(t, q, u_), u, hu)
        cmp("W_N_is_transposed_dg_N_dot_du", D(system.W_N(t, q)).T, num, dis)
    if mu > 0:
        num, dis = directional(lambda e: system.gamma_F(t + e, q + e * qd, u + e * ud), 1e-3)
        cmp("gamma_F_dot_is_time_derivative_of_gamma_F", system.gamma_F_dot(t, q, u, ud), num, dis)
        if nu:
            num, dis = jacobian(lambda u_: system.gamma_F(t, q, u_), u, hu)
            cmp("W_F_is_transposed_dgamma_F_du", D(system.W_F(t, q)).T, num, dis)

    # ---- the same clauses at a second velocity at the *same* (t, q): the contact memoises geometric quantities per
    # configuration, and a velocity-dependent quantity keyed on (t, q) only would be served stale here
    if nu:
        u2 = -0.6 * u[::-1] + 0.3
        ud2 = 0.8 * ud[::-1] - 0.1
        qd2 = system.q_dot(t, q, u2)
        num, dis = directional(lambda e: system.g_N_dot(t + e, q + e * qd2, u2 + e * ud2), 1e-3)
        cmp("g_N_ddot_is_time_derivative_of_g_N_dot:second_velocity_same_configuration", system.g_N_ddot(t, q, u2, ud2), num, dis)
        if mu > 0:
            num, dis = directional(lambda e: system.gamma_F(t + e, q + e * qd2, u2 + e * ud2), 1e-3)
            cmp("gamma_F_dot_is_time_derivative_of_gamma_F:second_velocity_same_configuration",
                system.gamma_F_dot(t, q, u2, ud2), num, dis)

    # ---- every exposed derivative: exact or NotImplementedError ---------------------------------
    def exposed(name, call, reference, wrt):
        try:
            analytic = D(call())
        except NotImplementedError:
            res.ok()
            res.label(f"declared_unimplemented:{name}")
            return
        except Exception as e:  # noqa
            res.ok()
            res.fail("derivative_fails", f"{site.split('x')[0]}.{name}", None, feats, f"{type(e).__name__}: {e}")
            return
        x, h = (q, hq) if wrt == "q" else (u, hu)
        if x.size == 0:
            return
        num, dis = jacobian(reference, x, h)
        compare(res, f"exposed_derivative:{name}", site, analytic, num, dis, feats, tol=1e-6)

    import warnings

    with warnings.catch_warnings():
        warnings.simplefilter("ignore")
        exposed("g_N_q", lambda: system.g_N_q(t, q), lambda q_: system.g_N(t, q_), "q")
        exposed("Wla_N_q", lambda: system.Wla_N_q(t, q, la_N), lambda q_: D(system.W_N(t, q_)) @ la_N, "q")
        exposed("xi_N_q", lambda: system.xi_N_q(t, q, u), lambda q_: system.g_N_dot(t, q_, u), "q")
        exposed("g_N_dot_u", lambda: system.g_N_dot_u(t, q), lambda u_: system.g_N_dot(t, q, u_), "u")
        if mu > 0:
            exposed("gamma_F_q", lambda: system.gamma_F_q(t, q, u), lambda q_: system.gamma_F(t, q_, u), "q")
            exposed("xi_F_q", lambda: system.xi_F_q(t, q, u), lambda q_: system.gamma_F(t, q_, u), "q")
            exposed("Wla_F_q", lambda: system.Wla_F_q(t, q, la_F), lambda q_: D(system.W_F(t, q_)) @ la_F, "q")
            exposed("gamma_F_u", lambda: system.gamma_F_u(t, q), lambda u_: system.gamma_F(t, q, u_), "u")
            exposed("gamma_F_dot_q", lambda: system.gamma_F_dot_q(t, q, u, ud),
                    lambda q_: system.gamma_F_dot(t, q_, u, ud), "q")
            exposed("gamma_F_dot_u", lambda: system.gamma_F_dot_u(t, q, u, ud),
                    lambda u_: system.gamma_F_dot(t, q, u_, ud), "u")

    # ---- after everything else was evaluated: the basic quantities at the first state are unchanged ----------
    res.ok()
    again = {"g_N": system.g_N(t, q), "g_N_dot": system.g_N_dot(t, q, u), "W_N": D(system.W_N(t, q))}
    if mu > 0:
        again.update(gamma_F=system.gamma_F(t, q, u), W_F=D(system.W_F(t, q)))
    for nm, val in again.items():
        if not np.array_equal(np.asarray(val), first[nm]):
            res.fail("re_evaluation_after_other_queries", f"{site}.{nm}", float(np.max(np.abs(np.asarray(val) - first[nm]))), feats)
            break

    radius_pos = (spec["r"] > 0) if kind == "S2P" else True
    res.nontrivial = mu > 0 and radius_pos and rotating and vt_norm > 1e-3
    res.label(kind, "friction" if mu > 0 else "frictionless", "subs:" + feats["subs"])
    if kind == "S2P":
        res.label("plane:moving" if "c1" in spec["plane"]["motion"] else "plane:fixed", "r=0" if spec["r"] == 0 else "r>0")
    return res
