"""C11 Rod discretization derivatives and nodal interpolation are consistent."""

import numpy as np
from hypothesis import strategies as st

from harness import gen, sysbuild, rodbuild
from harness.numdiff import jacobian, compare
from harness.runner import Result

PROPERTY = "C11"
LEVEL = "exploration"
RULE = (
    "case = rod formulation (as C10: 3 interpolations x displacement-based/mixed x constraint sets x degree 1..3 x "
    "1..3 elements x material) x state (reference + perturbation, nodal quaternions rescaled by 0.7..1.4, random u, "
    "u_dot, compliance and constraint multipliers) x cross-section parameters xi (a node, an element boundary, an "
    "interior point) x body-fixed offset. Non-trivial: some nodal quaternion is non-unit by more than 1e-2 and an "
    "interior xi is evaluated."
)
ASSUMPTIONS = [
    "Richardson differences with per-node quaternion steps; tolerance 1e-6*(1+max|value|)",
    "nodal interpolation: position, orientation (independent quaternion-to-matrix routine) and velocity at nodal xi "
    "equal the nodal values to 1e-10",
    "rotation property asserted for Quaternion and SE3 interpolation only (R12 interpolates directors linearly by design)",
    "mass matrix: symmetric to 1e-12 relative, smallest eigenvalue >= -1e-10 * largest; E_kin vs 1/2 u^T M u to 1e-10 "
    "relative; gyroscopic power |(h(q,u)-h(q,0)).u| <= 1e-10 * scale",
]
CASES = {"quick": 200, "thorough": 10000}
SHARDS = {"quick": 8, "thorough": 16}
TECHNIQUE = "generated rod formulation x non-unit state x xi; Richardson differences of System/rod routines vs reported Jacobians, nodal-value and algebraic identities"
LEVEL_TEXT = (
    "Generated-input search over the rod formulation grid with non-unit nodal quaternions; every reported "
    "derivative is compared with differences of its primal routine; interpolation, rotation, mass and energy "
    "identities have exact expected values. Sampling, not proof."
)
LEVEL_NOTE = "trusted: the rod's primal routines (h, c, g, W_c, W_g, q_dot, r_OP, A_IB, v_P, a_P) as references"


@st.composite
def _case(draw):
    rs = draw(rodbuild.rod_spec(max_nel=3))
    if draw(st.integers(0, 7)) == 0:
        # a finer mesh: element boundaries k / nelement that are not exactly the knots np.linspace produces
        rs["nel"] = draw(st.sampled_from([5, 10, 11, 13]))
        rs["degree"] = 1
        if "helix" in rs:
            rs["helix"]["angle"] = min(rs["helix"]["angle"], 1.5)
    n = rodbuild.nnodes(rs)
    el = draw(st.integers(0, rs["nel"] - 1))
    return {
        "rod": rs,
        "dr": [draw(gen.f(-1, 1)) for _ in range(9)],
        "dp": [draw(gen.f(-1, 1)) for _ in range(8)],
        "scales": [draw(gen.f(0.7, 1.4)) for _ in range(5)] if draw(st.integers(0, 4)) else [1.0],
        "u": [draw(gen.f(-2, 2)) for _ in range(11)],
        "u_dot": [draw(gen.f(-2, 2)) for _ in range(7)],
        "la": [draw(gen.f(-2, 2)) for _ in range(7)],
        "node": draw(st.integers(0, n - 1)),
        "xi_int": (el + draw(gen.f(0.05, 0.95))) / rs["nel"],
        "B_r_CP": draw(gen.vec3(-2, -0.3)),
        # the system is assembled a second time before it is evaluated (as set_new_initial_state does)
        "assemble_twice": draw(st.integers(0, 3)) == 0,
        # states at rounding distance from the reference configuration (what a converged or nearly undeformed rod is):
        # the nodal perturbations are scaled by 10^pert_exp
        "pert_exp": draw(st.sampled_from([0, 0, 0, 0, 0, 0, -8, -12, -17, -21])),
    }


def strategy(tier):
    return _case()


def static_cases(tier):
    from checks import c10

    out = []
    for s in c10.static_cases(tier):
        out.append({"rod": s["rod"], "dr": s["dr"], "dp": s["dp"], "scales": s["scales"],
                    "u": [0.5, -1.0, 0.7, 0.2, -0.4, 0.9, -0.6, 1.1, -0.3, 0.8, 0.1],
                    "u_dot": [0.3, -0.2, 0.5, 0.1, -0.7, 0.4, 0.6], "la": s["la"], "node": 1, "xi_int": 0.37,
                    "B_r_CP": [0.05, -0.1, 0.2]})
    return out


def check(spec):
    from checks import c10

    res = Result()
    D = sysbuild.dense
    rs = spec["rod"]
    system, rod, Q = c10.build(rs)
    if spec.get("assemble_twice"):
        sysbuild.assemble(system)
    site = rodbuild.formulation_name(rs)
    feats = {"formulation": site, "degree": rs["degree"], "nel": rs["nel"]}
    n = rodbuild.nnodes(rs)
    nq, nu = system.nq, system.nu
    ps = 10.0 ** spec.get("pert_exp", 0)
    q = rodbuild.perturb(rs, Q, (ps * np.array(spec["dr"])).tolist(), (ps * np.array(spec["dp"])).tolist(), spec["scales"])
    u = np.array((spec["u"] * (nu // 11 + 1))[:nu], dtype=float)
    ud = np.array((spec["u_dot"] * (nu // 7 + 1))[:nu], dtype=float)
    la_c = np.array((spec["la"] * (system.nla_c // 7 + 1))[: system.nla_c], dtype=float)
    la_g = np.array((spec["la"][::-1] * (system.nla_g // 7 + 1))[: system.nla_g], dtype=float)
    hq = rodbuild.quat_steps(rs, q)
    hu = 1e-3 * np.ones(nu)
    t = 0.0

    def cmp(name, analytic, f, x, h):
        num, dis = jacobian(f, x, h)
        compare(res, f"derivative:{name}", site, analytic, num, dis, feats, tol=1e-6)

    def expect(sub, err, tol, detail=None):
        res.ok()
        if not np.isfinite(err) or err > tol:
            res.fail(sub, site, err, feats, detail or f"err={err:.3e} tol={tol:.1e}")

    # ---- system-level derivatives -------------------------------------------------------------
    if hasattr(rod, "h_q"):
        cmp("h_q", D(system.h_q(t, q, u)), lambda q_: system.h(t, q_, u), q, hq)
    cmp("h_u", D(system.h_u(t, q, u)), lambda u_: system.h(t, q, u_), u, hu)
    cmp("q_dot_q", D(system.q_dot_q(t, q, u)), lambda q_: system.q_dot(t, q_, u), q, hq)
    cmp("q_dot_u", D(system.q_dot_u(t, q)), lambda u_: system.q_dot(t, q, u_), u, hu)
    cmp("g_S_q", D(system.g_S_q(t, q)), lambda q_: system.g_S(t, q_), q, hq)
    if system.nla_c:
        cmp("c_q", D(system.c_q(t, q, u, la_c)), lambda q_: system.c(t, q_, u, la_c), q, hq)
        cmp("c_la_c", D(system.c_la_c()), lambda l_: system.c(t, q, u, l_), la_c, 1e-3 * np.ones_like(la_c))
        cmp("Wla_c_q", D(system.Wla_c_q(t, q, la_c)), lambda q_: D(system.W_c(t, q_)) @ la_c, q, hq)
    if system.nla_g:
        cmp("g_q", D(system.g_q(t, q)), lambda q_: system.g(t, q_), q, hq)
        cmp("Wla_g_q", D(system.Wla_g_q(t, q, la_g)), lambda q_: D(system.W_g(t, q_)) @ la_g, q, hq)
        cmp("W_g_is_transposed_dg_dot_du", D(system.W_g(t, q)).T, lambda u_: system.g_dot(t, q, u_), u, hu)

    # ---- cross-section kinematics ----------------------------------------------------------------
    B = np.array(spec["B_r_CP"], dtype=float)
    xi_node = spec["node"] / (n - 1)
    xi_bnd = min(rs["nel"] - 1, 1) / rs["nel"] if rs["nel"] > 1 else 1.0
    for tag, xi in (("node", float(xi_node)), ("boundary", float(xi_bnd)), ("interior", float(spec["xi_int"]))):
        qDOF = rod.local_qDOF_P(xi)
        uDOF = rod.local_uDOF_P(xi)
        qe, ue, ude = q[qDOF], u[uDOF], ud[uDOF]
        he = hq[qDOF]
        hue = 1e-3 * np.ones_like(ue)
        fx = dict(feats, xi=tag)

        def cmpx(name, analytic, f, x, h):
            num, dis = jacobian(f, x, h)
            compare(res, f"derivative:{name}", site, analytic, num, dis, fx, tol=1e-6)

        cmpx("r_OP_q", rod.r_OP_q(t, qe, xi, B), lambda q_: rod.r_OP(t, q_, xi, B), qe, he)
        cmpx("A_IB_q", rod.A_IB_q(t, qe, xi), lambda q_: rod.A_IB(t, q_, xi), qe, he)
        cmpx("v_P_q", rod.v_P_q(t, qe, ue, xi, B), lambda q_: rod.v_P(t, q_, ue, xi, B), qe, he)
        cmpx("J_P_is_dv_P_du", rod.J_P(t, qe, xi, B), lambda u_: rod.v_P(t, qe, u_, xi, B), ue, hue)
        cmpx("J_P_q", rod.J_P_q(t, qe, xi, B), lambda q_: rod.J_P(t, q_, xi, B), qe, he)
        cmpx("a_P_q", rod.a_P_q(t, qe, ue, ude, xi, B), lambda q_: rod.a_P(t, q_, ue, ude, xi, B), qe, he)
        cmpx("a_P_u", rod.a_P_u(t, qe, ue, ude, xi, B), lambda u_: rod.a_P(t, qe, u_, ude, xi, B), ue, hue)
        cmpx("B_J_R_is_dB_Omega_du", rod.B_J_R(t, qe, xi), lambda u_: rod.B_Omega(t, qe, u_, xi), ue, hue)
        A = np.asarray(rod.A_IB(t, qe, xi), dtype=float)
        if rs["interp"] in ("Quaternion", "SE3"):
            expect("is_rotation", max(float(np.max(np.abs(A.T @ A - np.eye(3)))), abs(np.linalg.det(A) - 1.0)), 1e-10,
                   f"xi={tag}")
        # the offset point is queried before the cross-section centre at the same (qe, xi): queries in any order
        rB = np.asarray(rod.r_OP(t, qe, xi, B), dtype=float).copy()
        r0 = np.asarray(rod.r_OP(t, qe, xi, np.zeros(3)), dtype=float).copy()
        expect("offset_point_is_centre_plus_rotated_offset", float(np.max(np.abs(rB - r0 - A @ B))), 1e-10 * (1 + float(np.max(np.abs(rB)))),
               f"xi={tag}")
        if tag == "node":
            i = spec["node"]
            r_i = q[[i, i + n, i + 2 * n]]
            p_i = q[3 * n + np.array([i, i + n, i + 2 * n, i + 3 * n])]
            v_i = u[[i, i + n, i + 2 * n]]
            w_i = u[3 * n + np.array([i, i + n, i + 2 * n])]
            z = np.zeros(3)
            expect("nodal_interpolation:r_OP", float(np.max(np.abs(rod.r_OP(t, qe, xi, z) - r_i))), 1e-10)
            expect("nodal_interpolation:A_IB", float(np.max(np.abs(A - gen.quat_to_R(p_i)))), 1e-10)
            expect("nodal_interpolation:v_P", float(np.max(np.abs(rod.v_P(t, qe, ue, xi, z) - v_i))), 1e-10)
            expect("nodal_interpolation:B_Omega", float(np.max(np.abs(rod.B_Omega(t, qe, ue, xi) - w_i))), 1e-10)

    # ---- mass, kinetic energy, gyroscopic forces ----------------------------------------------
    M = D(system.M(t, q))
    ms = float(np.max(np.abs(M)))
    expect("mass_symmetric", float(np.max(np.abs(M - M.T))), 1e-12 * ms)
    ev = np.linalg.eigvalsh(0.5 * (M + M.T))
    expect("mass_positive_semidefinite", float(max(0.0, -ev.min())), 1e-10 * float(ev.max()))
    Ek = float(system.E_kin(t, q, u))
    expect("ekin_is_half_uMu", abs(Ek - 0.5 * u @ M @ u), 1e-10 * (1 + abs(Ek)))
    hg = system.h(t, q, u) - system.h(t, q, np.zeros(nu))
    expect("gyro_powerless", abs(float(hg @ u)), 1e-10 * (1 + float(np.linalg.norm(hg) * np.linalg.norm(u))))

    P = q[3 * n:].reshape(4, n)
    nonunit = float(np.max(np.abs(np.linalg.norm(P, axis=0) - 1.0))) > 1e-2
    res.nontrivial = nonunit
    res.label(site, f"degree={rs['degree']}", "quat:non-unit" if nonunit else "quat:unit")
    if spec.get("pert_exp", 0) < 0:
        res.label(f"state:reference+1e{spec['pert_exp']}")
    return res
