"""C20 Solver results honour the Solution contract."""

import math
import os
import tempfile

import numpy as np
from hypothesis import strategies as st

from harness import gen, dynbuild, sysbuild, build
from harness.runner import Result, quiet

PROPERTY = "C20"
LEVEL = "exploration"
RULE = (
    "case = solver in {Moreau, Rattle, BackwardEuler, DualStormerVerlet, ScipyIVP, ScipyDAE, Newton (statics)} x "
    "small system (spring-mass point, rigid pendulum on a revolute joint, sphere bouncing on a plane for the "
    "nonsmooth solvers, spring statics for Newton) x (t0, dt, t1) with t1-t0 = k*dt written in decimal (dt in "
    "{0.1, 0.01, 0.05, 0.2, 0.025, 0.3, 0.07}, k = 2..14, t0 in {0, 0.5, 1.3}) or a clear non-multiple (fractional "
    "part in [0.05, 0.95]). Non-trivial: t1-t0 is a decimal multiple of dt whose quotient is not exact in binary."
)
ASSUMPTIONS = [
    "expected number of steps n* = ceil((t1-t0)/dt - 1e-9): decimal multiples count as multiples; generated "
    "non-multiples stay at least 0.05 steps away from that boundary",
    "uniform grid: |t_k - (t0 + k dt)| <= 1e-9 * dt * (k+1)",
    "fields are matched to dimensions by name (q: nq; u, u_dot: nu; la_g, P_g: nla_g; la_c: nla_c; la_N, P_N: nla_N; "
    "la_F, P_F: nla_F; la_gamma, P_gamma: nla_gamma); other array fields must have len(t) rows",
    "ScipyIVP / ScipyDAE are run with rtol=1e-6 on the smooth systems only",
    "save/load: a one-row solution is saved to and loaded from the path first, then the real solution is saved to the same "
    "path and loaded (a result file that is overwritten between loads)",
]
CASES = {"quick": 140, "thorough": 5000}
SHARDS = {"quick": 8, "thorough": 16}
TECHNIQUE = "generated solver x system x (t0, dt, t1) incl. decimal-but-not-binary multiples; grid model, shape model, iterator and save/load round-trip"
LEVEL_TEXT = (
    "Generated-input search with a reference model of the time grid and of the field shapes, plus iterator and "
    "save/load round-trips. Sampling, not proof."
)
LEVEL_NOTE = "trusted: numpy, dill round-trip compared field by field"

SOLVERS = dynbuild.DYNAMIC_SOLVERS + ["Newton"]
WIDTH = {"q": "nq", "u": "nu", "u_dot": "nu", "q_dot": "nq", "la_g": "nla_g", "P_g": "nla_g", "la_gamma": "nla_gamma",
         "P_gamma": "nla_gamma", "la_c": "nla_c", "la_N": "nla_N", "P_N": "nla_N", "la_F": "nla_F", "P_F": "nla_F",
         "mu_g": "nla_g", "mu_S": "nla_S", "la_S": "nla_S"}


@st.composite
def _case(draw):
    solver = draw(st.sampled_from(SOLVERS))
    if solver == "Newton":
        # a point mass (nq = nu) or a quaternion-parametrised rigid body (nq = 7, nu = 6) held by springs
        return {"solver": solver, "system": draw(st.sampled_from(["statics", "statics_rigid"])), "n_load_steps": draw(st.integers(1, 12)),
                "k": draw(gen.f(1, 50))}
    system = draw(st.sampled_from(["spring_mass", "pendulum"] + (["bounce", "bounce"] if solver in dynbuild.NONSMOOTH_SOLVERS else [])
                                  # a force that blows up inside the horizon: scipy's step-size control gives up and the run ends early
                                  + (["blow_up"] if solver == "ScipyIVP" else [])))
    dt = draw(st.sampled_from([0.1, 0.01, 0.05, 0.2, 0.025, 0.3, 0.07]))
    t0 = draw(st.sampled_from([0.0, 0.0, 0.5, 1.3]))
    k = draw(st.integers(2, 14))
    multiple = draw(st.integers(0, 3)) > 0
    if multiple:
        # decimal arithmetic: t1 = t0 + k*dt rounded to 6 decimals, i.e. what a user would type
        t1 = round(t0 + k * dt, 6)
    else:
        t1 = t0 + (k - 1 + draw(gen.f(0.05, 0.95))) * dt
    return {"solver": solver, "system": system, "t0": t0, "dt": dt, "t1": t1, "k": k, "multiple": multiple,
            "mu": draw(st.sampled_from([0.0, 0.3])), "e_N": draw(st.sampled_from([0.0, 0.5]))}


def strategy(tier):
    return _case()


def static_cases(tier):
    out = []
    for solver in dynbuild.DYNAMIC_SOLVERS:
        for (t0, dt, k) in ((0.0, 0.1, 11), (0.0, 0.01, 7), (1.3, 0.1, 3), (0.5, 0.1, 11), (0.0, 0.1, 3)):
            out.append({"solver": solver, "system": "pendulum", "t0": t0, "dt": dt, "t1": round(t0 + k * dt, 6), "k": k,
                        "multiple": True, "mu": 0.0, "e_N": 0.0})
    return out


def build_system(spec):
    from cardillo.forces import Force
    from cardillo.discrete import PointMass, RigidBody, Frame
    from cardillo.contacts import Sphere2Plane

    t0 = spec.get("t0", 0.0)
    kind = spec["system"]
    if kind == "statics_rigid":
        from checks import c23
        return c23.build_springs({"k": [spec.get("k", 20.0) + 5.0, 15.0, 25.0], "F": [0.5, 1.0, -2.0], "preload": 0.0})
    system = sysbuild.new_system(t0)
    if kind in ("spring_mass", "statics"):
        pm = PointMass(1.5, q0=np.array([1.0, 0.2, -0.1]), u0=np.zeros(3) if kind == "statics" else np.array([0.3, -0.2, 0.1]), name="pm")
        system.add(pm)
        anchors = [[0.0, 0.0, 0.0]] if kind != "statics" else [[0.0, 0.0, 0.0], [2.0, 1.0, 0.5], [0.5, -1.5, 1.0]]
        for i, a in enumerate(anchors):
            fr = Frame(r_OP=np.array(a), name=f"anchor{i}")
            system.add(fr)
            tpi = sysbuild.make_tpi({"B1": [0.0] * 3, "B2": [0.0] * 3, "name": f"tpi{i}"}, fr, pm)
            system.add(tpi)
            el = sysbuild.make_force_law({"type": "Spring", "k": spec.get("k", 20.0) if kind == "statics" else 20.0,
                                          "l_ref": 0.8, "compliance": kind != "statics"}, tpi)
            el.name = f"spring{i}"
            system.add(el)
        if kind == "statics":
            system.add(Force(lambda t: t * np.array([0.5, 1.0, -2.0]), pm, name="load"))
        else:
            system.add(Force(np.array([0.0, 0.0, -9.81 * 1.5]), pm, name="gravity"))
    elif kind == "blow_up":
        pm = PointMass(1.0, q0=np.zeros(3), u0=np.zeros(3), name="pm")
        tc = t0 + 0.45 * (spec["t1"] - t0)
        system.add(pm, Force(lambda t: np.array([1.0, 0.0, 0.0]) / (tc - t) ** 2 if t < tc else np.array([np.inf, 0.0, 0.0]), pm, name="blow_up"))
    elif kind == "pendulum":
        rb = RigidBody(2.0, np.diag([0.1, 0.2, 0.3]), q0=np.array([0.7, 0.0, 0.0, 1.0, 0, 0, 0]), name="rb")
        system.add(rb)
        system.add(sysbuild.make_joint({"type": "Revolute", "axis": 1, "r_OJ0": [0.0] * 3, "psi_J": None}, system.origin, rb))
        system.add(Force(np.array([0.0, 0.0, -9.81 * 2.0]), rb, name="gravity"))
    else:
        ground = Frame(name="ground")
        rb = RigidBody(1.0, 0.4 * 0.01 * np.eye(3), q0=np.array([0.0, 0.0, 0.25, 1.0, 0, 0, 0]),
                       u0=np.array([0.5, 0.0, -0.5, 0.0, 1.0, 0.0]), name="ball")
        system.add(ground, rb)
        system.add(Force(np.array([0.0, 0.0, -9.81]), rb, name="gravity"))
        system.add(Sphere2Plane(ground, rb, mu=spec["mu"], r=0.1, e_N=spec["e_N"], name="contact"))
    with quiet():
        system.assemble(options=dynbuild.options())
    return system


def check(spec):
    from cardillo.solver import Newton, load_solution, save_solution

    res = Result()
    solver = spec["solver"]
    site = solver
    feats = {"solver": solver, "system": spec["system"]}
    system = build_system(spec)
    if solver == "Newton":
        import warnings as _w
        with _w.catch_warnings(record=True) as rec:
            _w.simplefilter("always")
            with quiet():
                sol = Newton(system, n_load_steps=spec["n_load_steps"], options=dynbuild.options()).solve()
        # a load step that does not converge ends the run with an announcement (C21): the end-point clause is moot then
        truncated = any(("Returning solution" in str(w.message)) or ("No load step" in str(w.message)) or ("not converged" in str(w.message)) for w in rec)
        expected_t = np.linspace(0, 1, spec["n_load_steps"] + 1)
    else:
        kw = {"rtol": 1e-6, "atol": 1e-8} if solver.startswith("Scipy") else {}
        try:
            sol, wrn = dynbuild.run(solver, system, spec["t1"], spec["dt"], **kw)
        except RuntimeError as e:
            if "not converged" in str(e):
                # an announced failure of the nonlinear solve at this (large) step size: subject of C21, not a result
                res.inconclusive += 1
                res.label("solver_raised_not_converged")
                return res
            raise
        truncated = any("Returning solution up to" in w for w in wrn)
        if spec["system"] == "blow_up":
            # the integrator cannot pass the singularity: the run ends early (the end-point clause does not apply)
            truncated = True
            res.label("ivp_aborted_early" if len(sol.t) < int(math.ceil((spec["t1"] - spec["t0"]) / spec["dt"] - 1e-9)) + 1 else "ivp_passed_singularity")
        t0, dt, t1 = spec["t0"], spec["dt"], spec["t1"]
        nstar = int(math.ceil((t1 - t0) / dt - 1e-9))
        expected_t = t0 + dt * np.arange(nstar + 1)
        feats.update(t0=t0, dt=dt, t1=t1)
    t = np.asarray(sol.t, dtype=float)
    nt = len(t)
    # ---- time grid --------------------------------------------------------------------------
    res.ok()
    if nt == 0 or abs(t[0] - expected_t[0]) > 1e-12:
        res.fail("starts_at_t0", site, None, feats, f"t[0]={t[0] if nt else None}")
    res.ok()
    if truncated:
        res.label("truncated_run_exempt_from_end_point_clause")
    elif nt != len(expected_t):
        res.fail("ends_at_first_grid_point_at_or_after_t1", site, float(nt - len(expected_t)), feats,
                 f"{nt} instants, expected {len(expected_t)}; last t = {t[-1]!r}, t1 = {spec.get('t1', 1.0)!r}")
    m = min(nt, len(expected_t))
    step = spec.get("dt", 1.0 / max(1, spec.get("n_load_steps", 1)))
    dev = np.abs(t[:m] - expected_t[:m])
    res.ok()
    if np.any(dev > 1e-9 * step * (np.arange(m) + 1)):
        res.fail("uniform_grid", site, float(dev.max()), feats)
    # ---- field shapes -------------------------------------------------------------------------
    fields = {k: v for k, v in sol.__dict__.items() if k not in ("system", "solver_summary", "t") and v is not None}
    for name, val in fields.items():
        arr = np.asarray(val)
        res.ok()
        if arr.ndim == 0 or arr.shape[0] != nt:
            res.fail("one_row_per_instant", f"{site}.{name}", None, feats, f"shape {arr.shape}, len(t)={nt}")
            continue
        if name in WIDTH:
            w = getattr(system, WIDTH[name])
            res.ok()
            if arr.ndim != 2 or arr.shape[1] != w:
                res.fail("width_is_system_dimension", f"{site}.{name}", None, feats, f"shape {arr.shape}, expected (*, {w})")
    res.ok()
    if sol.q is None or (solver != "Newton" and sol.u is None):
        res.fail("has_q_and_u", site, None, feats)
    # ---- iterator -------------------------------------------------------------------------------
    recs = list(sol)
    res.ok()
    if len(recs) != nt:
        res.fail("iterator_yields_one_record_per_instant", site, float(len(recs)), feats)
    else:
        bad = None
        for i, r in enumerate(recs):
            if abs(r.t - t[i]) > 0:
                bad = ("t", i)
                break
            for name, val in fields.items():
                got = getattr(r, name, None)
                arr = np.asarray(val)
                if arr.ndim >= 1 and arr.shape[0] == nt:
                    if got is None or not np.array_equal(np.asarray(got), arr[i], equal_nan=True):
                        bad = (name, i)
                        break
            if bad:
                break
        res.ok()
        if bad:
            res.fail("iterator_records_equal_rows", f"{site}.{bad[0]}", None, feats, f"row {bad[1]}")
    # ---- save / load -------------------------------------------------------------------------
    d = tempfile.mkdtemp(prefix="c20_")
    try:
        fn = os.path.join(d, "sol.pkl")
        with quiet():
            # history on one path: a shorter solution is saved and loaded first, then the real one overwrites it
            from cardillo.solver import Solution
            short = Solution(getattr(sol, "system", None), np.asarray(sol.t)[:1].copy(), np.asarray(sol.q)[:1].copy())
            save_solution(short, fn)
            short2 = load_solution(fn)
            save_solution(sol, fn)
            sol2 = load_solution(fn)
        res.ok()
        if not (np.array_equal(np.asarray(short2.t), np.asarray(short.t)) and np.array_equal(np.asarray(short2.q), np.asarray(short.q))):
            res.fail("save_load_preserves_fields", site, None, feats, "one-row solution not preserved")
        res.ok()
        bad = [k for k in ["t"] + list(fields) if not np.array_equal(np.asarray(getattr(sol2, k, None)),
                                                                    np.asarray(getattr(sol, k)), equal_nan=True)]
        if bad:
            res.fail("save_load_preserves_fields", site, None, feats, f"fields {bad}")
    finally:
        import shutil

        shutil.rmtree(d, ignore_errors=True)
    if solver == "Newton":
        res.nontrivial = spec["n_load_steps"] >= 2
    else:
        qd = (spec["t1"] - spec["t0"]) / spec["dt"]
        res.nontrivial = bool(spec["multiple"] and qd != round(qd))
    res.label(f"solver:{solver}", f"system:{spec['system']}")
    if solver != "Newton":
        res.label("t1:decimal_multiple" if spec["multiple"] else "t1:non_multiple")
    return res
