"""C14 System assembly is a faithful, repeatable scatter of its contributions."""

import numpy as np
from hypothesis import strategies as st

from harness import gen, build, sysbuild, rodbuild
from harness.runner import Result, quiet

PROPERTY = "C14"
LEVEL = "exploration"
RULE = (
    "two case kinds. config: a random system of 1-3 bodies (RigidBody/PointMass), optional frames, joints between "
    "random pairs, a TwoPointInteraction with a Spring/KelvinVoigt/Maxwell element, loads, a Revolute with an "
    "actuator, Sphere2Plane and Sphere2Sphere contacts, optionally a rod with a line load, evaluated at a random "
    "state; every System evaluation method is compared with a dense reference assembly written in the harness, the "
    "index sets are checked to partition the global vectors, and assemble() is called a second time. history: a "
    "generated sequence (up to 30 steps) of add / add-duplicate / remove / pop / extend / remove-then-re-add / "
    "assemble operations with names drawn from a tiny pool so that collisions happen, compared after every step "
    "with a list+dict model. Non-trivial: config with >= 2 contributions overlapping on the same degrees of freedom; "
    "history with a remove followed by an add or assemble."
)
ASSUMPTIONS = [
    "dense reference: for each System method, loop over the contributions that provide the local routine, evaluate "
    "it on the sliced arguments and add into a dense array at the contribution's DOFs; agreement to 1e-12 relative",
    "re-assembly without changes must reproduce layout (all DOF arrays, dimensions) and evaluations exactly",
    "histories only remove a body after the contributions that reference it (a dangling reference is a user error)",
    "name registry: names unique and contributions_map == {c.name: c for c in contributions} after every operation; "
    "adding an object twice raises ValueError",
]
CASES = {"quick": 800, "thorough": 20000}
SHARDS = {"quick": 8, "thorough": 16}
TECHNIQUE = "generated systems vs dense reference assembly (differential); model-based generated add/remove/assemble histories vs list+dict model"
LEVEL_TEXT = (
    "Generated-input search: random systems against an independent dense scatter-add reference for ~45 evaluation "
    "methods, plus generated operation histories against a reference model of the registry. Sampling, not proof."
)
LEVEL_NOTE = "trusted: the contributions' local routines (subjects of C04-C11); numpy"


# --------------------------------------------------------------------------------------
# generators
# --------------------------------------------------------------------------------------
@st.composite
def _config(draw):
    nb = draw(st.integers(1, 3))
    bodies = []
    for i in range(nb):
        b = draw(build.rigid_body()) if draw(st.integers(0, 3)) else draw(build.point_mass())
        b["r"] = [3.0 * i + draw(gen.f(-0.3, 0.3)), draw(gen.f(-0.3, 0.3)), 1.0 + draw(gen.f(0, 0.5))]
        bodies.append(b)
    if draw(st.integers(0, 7)) == 0:
        # a micro-scale model in SI units: masses and inertias of order 1e-13
        for b in bodies:
            b["mass"] = b["mass"] * 1e-13
            if "theta" in b:
                b["theta"] = (np.array(b["theta"]) * 1e-13).tolist()
    rigid = [i for i, b in enumerate(bodies) if b["kind"] == "rigid"]
    spec = {"kind": "config", "bodies": bodies, "t0": draw(gen.f(0, 1)), "parts": []}
    parts = spec["parts"]
    if draw(st.booleans()):
        spec["frame"] = draw(build.frame_body(moving=draw(st.booleans()), rotating=False))
    # joints
    for _ in range(draw(st.integers(0, 2))):
        if not rigid:
            break
        j = draw(st.sampled_from(rigid))
        jt = draw(st.sampled_from(["Spherical", "RigidConnection", "Revolute", "Prismatic", "Cylindrical", "Planarizer"]))
        other = draw(st.sampled_from([-1] + [i for i in rigid if i != j]))  # -1 = origin
        js = {"type": jt, "axis": draw(st.integers(0, 2)), "r_OJ0": [draw(gen.f(-1, 1)) for _ in range(3)],
              "psi_J": draw(gen.rotvec(min_exp=-2, near_max=False))}
        parts.append({"part": "joint", "a": other, "b": j, "joint": js})
    if nb >= 2 and draw(st.booleans()):
        es = {"type": draw(st.sampled_from(["Spring", "KelvinVoigt", "Maxwell"])), "k": draw(gen.f(1, 20)),
              "d": draw(gen.f(0.1, 3)), "compliance": draw(st.booleans()), "l_ref": draw(gen.f(0.5, 3))}
        parts.append({"part": "law", "a": 0, "b": 1, "tpi": {"B1": [0.0] * 3, "B2": [0.0] * 3}, "element": es})
    for _ in range(draw(st.integers(0, 2))):
        i = draw(st.integers(0, nb - 1))
        lt = draw(st.sampled_from(["Force", "B_Force", "Moment", "B_Moment"])) if bodies[i]["kind"] == "rigid" else "Force"
        parts.append({"part": "load", "b": i, "load": {"type": lt, "f0": draw(gen.vec3(-1, 1)), "f1": draw(gen.vec3(-1, 0)),
                                                       "B_r_CP": draw(gen.vec3(-2, 0)) if bodies[i]["kind"] == "rigid" else [0.0] * 3}})
    if rigid and draw(st.booleans()):
        j = draw(st.sampled_from(rigid))
        parts.append({"part": "actuated_revolute", "b": j,
                      "joint": {"type": "Revolute", "axis": draw(st.integers(0, 2)), "angle0": draw(gen.f(-1, 1)),
                                "r_OJ0": [draw(gen.f(-1, 1)) for _ in range(3)], "psi_J": None},
                      "actuator": {"type": draw(st.sampled_from(["Motor", "PD", "PID"])), "kp": 3.0, "ki": 1.0, "kd": 0.5,
                                   "w": 1.0, "amp": [draw(gen.f(-2, 2)), draw(gen.f(-2, 2))]}})
    for _ in range(draw(st.integers(0, 2))):
        i = draw(st.integers(0, nb - 1))
        parts.append({"part": "s2p", "b": i, "mu": draw(st.sampled_from([0.0, 0.3, 0.8])), "r": draw(gen.f(0.05, 0.5)),
                      "e_N": draw(gen.f(0, 1)), "e_F": draw(st.sampled_from([0.0, 0.3, 0.8]))})
    if nb >= 2 and draw(st.booleans()):
        parts.append({"part": "s2s", "a": 0, "b": 1, "mu": draw(st.sampled_from([0.0, 0.5])), "r1": 0.3, "r2": 0.4,
                      "e_N": draw(gen.f(0, 1)), "e_F": draw(st.sampled_from([0.0, 0.3, 0.8]))})
    if draw(st.integers(0, 3)) == 0:
        rs = draw(rodbuild.rod_spec(max_nel=2))
        parts.append({"part": "rod", "rod": rs, "line_load": draw(st.booleans()), "clamp": draw(st.booleans())})
    spec["seed_state"] = [draw(gen.f(-1, 1)) for _ in range(17)]
    return spec


NAMES = ["a", "b", "c", "rigid_body", "cardillo_origin"]


@st.composite
def _history(draw):
    ops = []
    n = draw(st.integers(1, 30))
    for _ in range(n):
        op = draw(st.sampled_from(["add_body", "add_body", "add_joint", "add_duplicate", "remove", "pop", "extend",
                                   "readd", "assemble", "assemble", "remove_absent"]))
        ops.append({"op": op, "name": draw(st.sampled_from(NAMES)), "i": draw(st.integers(0, 50)),
                    "j": draw(st.integers(0, 50)), "kind": draw(st.sampled_from(["rigid", "point", "frame"])),
                    "named": draw(st.booleans())})
    return {"kind": "history", "ops": ops}


def strategy(tier):
    return st.one_of(_config(), _config(), _history())


# --------------------------------------------------------------------------------------
# config engine
# --------------------------------------------------------------------------------------
def build_config(spec):
    from cardillo.contacts import Sphere2Plane, Sphere2Sphere
    from cardillo.discrete import Frame
    from cardillo.rods.force_line_distributed import Force_line_distributed

    system = sysbuild.new_system(spec["t0"])
    bodies = [build.make_body(b, name=f"body{i}") for i, b in enumerate(spec["bodies"])]
    system.add(*bodies)
    ground = Frame(name="ground")
    system.add(ground)
    if "frame" in spec:
        system.add(build.make_body(spec["frame"], name="extra_frame"))
    for k, p in enumerate(spec["parts"]):
        kind = p["part"]
        if kind == "joint":
            s1 = system.origin if p["a"] < 0 else bodies[p["a"]]
            j = sysbuild.make_joint(p["joint"], s1, bodies[p["b"]])
            j.name = f"joint{k}"
            system.add(j)
        elif kind == "law":
            tpi = sysbuild.make_tpi(dict(p["tpi"], name=f"tpi{k}"), bodies[p["a"]], bodies[p["b"]])
            system.add(tpi)
            el = sysbuild.make_force_law(p["element"], tpi)
            el.name = f"law{k}"
            system.add(el)
        elif kind == "load":
            system.add(sysbuild.make_load(dict(p["load"], name=f"load{k}"), bodies[p["b"]]))
        elif kind == "actuated_revolute":
            j = sysbuild.make_joint(p["joint"], system.origin, bodies[p["b"]])
            j.name = f"revolute{k}"
            system.add(j)
            system.add(sysbuild.make_actuator(dict(p["actuator"], name=f"actuator{k}"), j))
        elif kind == "s2p":
            system.add(Sphere2Plane(ground, bodies[p["b"]], mu=p["mu"], r=p["r"], e_N=p["e_N"], e_F=p.get("e_F", 0.0), name=f"s2p{k}"))
        elif kind == "s2s":
            system.add(Sphere2Sphere(bodies[p["a"]], bodies[p["b"]], p["r1"], p["r2"], p["mu"], e_N=p["e_N"], e_F=p.get("e_F", 0.0), name=f"s2s{k}"))
        elif kind == "rod":
            rod, _ = rodbuild.make_rod(p["rod"], name=f"rod{k}")
            system.add(rod)
            if p["line_load"]:
                ll = Force_line_distributed(np.array([0.0, -1.0, 0.5]), rod)
                ll.name = f"lineload{k}"
                system.add(ll)
            if p["clamp"]:
                j = sysbuild.make_joint({"type": "RigidConnection", "xi2": 0.0}, system.origin, rod)
                j.name = f"clamp{k}"
                system.add(j)
    sysbuild.assemble(system)
    return system


def _has(c, name):
    return hasattr(c, name) and callable(getattr(c, name))


def _scatter(shape, items):
    out = np.zeros(shape)
    for idx, val in items:
        if val is None:
            continue
        val = sysbuild.dense(val)
        val = np.asarray(val, dtype=float)
        if len(shape) == 1:
            np.add.at(out, np.asarray(idx[0]), val.reshape(len(idx[0])))
        else:
            r, c = np.asarray(idx[0]), np.asarray(idx[1])
            np.add.at(out, (r[:, None], c[None, :]), val.reshape(len(r), len(c)))
    return out


def reference_table(system, t, q, u, ud, la):
    """(name, system-callable, reference-callable) for every evaluation method."""
    C = system.contributions
    S = system
    nq, nu = S.nq, S.nu
    la_g, la_c, la_N, la_F = la["g"], la["c"], la["N"], la["F"]
    qs = lambda c: q[c.qDOF]
    us = lambda c: u[c.uDOF]
    uds = lambda c: ud[c.uDOF]
    T = []

    def vec(name, sys_call, n, dof, local, cond=None):
        T.append((name, sys_call, lambda: _scatter((n,), [((getattr(c, dof),), local(c)) for c in C
                                                          if (cond(c) if cond else _has(c, name))])))

    def mat(name, sys_call, shape, rdof, cdof, local, cond=None):
        T.append((name, sys_call, lambda: _scatter(shape, [((getattr(c, rdof), getattr(c, cdof)), local(c)) for c in C
                                                           if (cond(c) if cond else _has(c, name))])))

    vec("q_dot", lambda: S.q_dot(t, q, u), nq, "my_qDOF", lambda c: c.q_dot(t, qs(c), us(c)))
    mat("q_dot_q", lambda: S.q_dot_q(t, q, u), (nq, nq), "my_qDOF", "qDOF", lambda c: c.q_dot_q(t, qs(c), us(c)))
    mat("q_dot_u", lambda: S.q_dot_u(t, q), (nq, nu), "my_qDOF", "uDOF", lambda c: c.q_dot_u(t, qs(c)))
    mat("M", lambda: S.M(t, q), (nu, nu), "uDOF", "uDOF", lambda c: c.M(t, qs(c)))
    vec("h", lambda: S.h(t, q, u), nu, "uDOF", lambda c: c.h(t, qs(c), us(c)))
    mat("h_q", lambda: S.h_q(t, q, u), (nu, nq), "uDOF", "qDOF", lambda c: c.h_q(t, qs(c), us(c)))
    mat("h_u", lambda: S.h_u(t, q, u), (nu, nu), "uDOF", "uDOF", lambda c: c.h_u(t, qs(c), us(c)))
    T.append(("E_pot", lambda: np.array([S.E_pot(t, q)]),
              lambda: np.array([sum(c.E_pot(t, qs(c)) for c in C if _has(c, "E_pot"))])))
    T.append(("E_kin", lambda: np.array([S.E_kin(t, q, u)]),
              lambda: np.array([sum(c.E_kin(t, qs(c), us(c)) for c in C if _has(c, "E_kin"))])))
    # compliance
    hc = lambda c: _has(c, "c")
    vec("la_c", lambda: S.la_c(t, q, u), S.nla_c, "la_cDOF", lambda c: c.la_c(t, qs(c), us(c)), hc)
    vec("c", lambda: S.c(t, q, u, la_c), S.nla_c, "la_cDOF", lambda c: c.c(t, qs(c), us(c), la_c[c.la_cDOF]), hc)
    mat("c_q", lambda: S.c_q(t, q, u, la_c), (S.nla_c, nq), "la_cDOF", "qDOF",
        lambda c: c.c_q(t, qs(c), us(c), la_c[c.la_cDOF]))
    mat("c_u", lambda: S.c_u(t, q, u, la_c), (S.nla_c, nu), "la_cDOF", "uDOF",
        lambda c: c.c_u(t, qs(c), us(c), la_c[c.la_cDOF]))
    mat("c_la_c", lambda: S.c_la_c(), (S.nla_c, S.nla_c), "la_cDOF", "la_cDOF", lambda c: c.c_la_c(), hc)
    mat("W_c", lambda: S.W_c(t, q), (nu, S.nla_c), "uDOF", "la_cDOF", lambda c: c.W_c(t, qs(c)), hc)
    mat("Wla_c_q", lambda: S.Wla_c_q(t, q, la_c), (nu, nq), "uDOF", "qDOF",
        lambda c: c.Wla_c_q(t, qs(c), la_c[c.la_cDOF]), lambda c: _has(c, "c_q"))
    # actuators
    ht = lambda c: _has(c, "la_tau")
    mat("W_tau", lambda: S.W_tau(t, q), (nu, S.nla_tau), "uDOF", "la_tauDOF", lambda c: c.W_tau(t, qs(c)), ht)
    vec("la_tau", lambda: S.la_tau(t, q, u), S.nla_tau, "la_tauDOF", lambda c: c.la_tau(t, qs(c), us(c)), ht)
    mat("Wla_tau_q", lambda: S.Wla_tau_q(t, q, u), (nu, nq), "uDOF", "qDOF", lambda c: c.Wla_tau_q(t, qs(c), us(c)), ht)
    mat("Wla_tau_u", lambda: S.Wla_tau_u(t, q, u), (nu, nu), "uDOF", "uDOF", lambda c: c.Wla_tau_u(t, qs(c), us(c)), ht)
    vec("tau", lambda: S.tau(t), S.ntau, "tauDOF", lambda c: c.tau(t), lambda c: _has(c, "tau") and hasattr(c, "tauDOF"))
    # bilateral constraints
    hg = lambda c: _has(c, "g")
    vec("g", lambda: S.g(t, q), S.nla_g, "la_gDOF", lambda c: c.g(t, qs(c)), hg)
    mat("g_q", lambda: S.g_q(t, q), (S.nla_g, nq), "la_gDOF", "qDOF", lambda c: c.g_q(t, qs(c)), hg)
    mat("W_g", lambda: S.W_g(t, q), (nu, S.nla_g), "uDOF", "la_gDOF", lambda c: c.W_g(t, qs(c)), hg)
    mat("Wla_g_q", lambda: S.Wla_g_q(t, q, la_g), (nu, nq), "uDOF", "qDOF",
        lambda c: c.Wla_g_q(t, qs(c), la_g[c.la_gDOF]), hg)
    vec("g_dot", lambda: S.g_dot(t, q, u), S.nla_g, "la_gDOF", lambda c: c.g_dot(t, qs(c), us(c)), hg)
    mat("g_dot_u", lambda: S.g_dot_u(t, q), (S.nla_g, nu), "la_gDOF", "uDOF", lambda c: c.g_dot_u(t, qs(c)), hg)
    vec("g_ddot", lambda: S.g_ddot(t, q, u, ud), S.nla_g, "la_gDOF", lambda c: c.g_ddot(t, qs(c), us(c), uds(c)), hg)
    # quaternion conditions
    hs = lambda c: _has(c, "g_S")
    vec("g_S", lambda: S.g_S(t, q), S.nla_S, "la_SDOF", lambda c: c.g_S(t, qs(c)), hs)
    mat("g_S_q", lambda: S.g_S_q(t, q), (S.nla_S, nq), "la_SDOF", "qDOF", lambda c: c.g_S_q(t, qs(c)), hs)
    # contacts
    hn = lambda c: _has(c, "g_N")
    vec("g_N", lambda: S.g_N(t, q), S.nla_N, "la_NDOF", lambda c: c.g_N(t, qs(c)), hn)
    mat("g_N_q", lambda: S.g_N_q(t, q), (S.nla_N, nq), "la_NDOF", "qDOF", lambda c: c.g_N_q(t, qs(c)), hn)
    mat("W_N", lambda: S.W_N(t, q), (nu, S.nla_N), "uDOF", "la_NDOF", lambda c: c.W_N(t, qs(c)), hn)
    vec("g_N_dot", lambda: S.g_N_dot(t, q, u), S.nla_N, "la_NDOF", lambda c: c.g_N_dot(t, qs(c), us(c)), hn)
    vec("g_N_ddot", lambda: S.g_N_ddot(t, q, u, ud), S.nla_N, "la_NDOF", lambda c: c.g_N_ddot(t, qs(c), us(c), uds(c)), hn)
    mat("Wla_N_q", lambda: S.Wla_N_q(t, q, la_N), (nu, nq), "uDOF", "qDOF",
        lambda c: c.Wla_N_q(t, qs(c), la_N[c.la_NDOF]), hn)
    vec("xi_N", lambda: S.xi_N(t, t, q, q, 0.5 * u, u), S.nla_N, "la_NDOF",
        lambda c: c.g_N_dot(t, qs(c), us(c)) + c.e_N * c.g_N_dot(t, qs(c), 0.5 * us(c)), hn)
    # restituted velocities with distinct pre- and post-impact states (Rattle calls them this way)
    tp, qp, up = t - 0.05, q + 0.07 * np.cos(np.arange(nq) + 1.0), 0.5 * u[::-1] - 0.2
    vec("xi_N[pre!=post]", lambda: S.xi_N(tp, t, qp, q, up, u), S.nla_N, "la_NDOF",
        lambda c: c.g_N_dot(t, qs(c), us(c)) + c.e_N * c.g_N_dot(tp, qp[c.qDOF], up[c.uDOF]), hn)
    hf = lambda c: _has(c, "gamma_F")
    vec("gamma_F", lambda: S.gamma_F(t, q, u), S.nla_F, "la_FDOF", lambda c: c.gamma_F(t, qs(c), us(c)), hf)
    vec("xi_F[pre!=post]", lambda: S.xi_F(tp, t, qp, q, up, u), S.nla_F, "la_FDOF",
        lambda c: c.gamma_F(t, qs(c), us(c)) + c.e_F * c.gamma_F(tp, qp[c.qDOF], up[c.uDOF]), hf)
    mat("gamma_F_q", lambda: S.gamma_F_q(t, q, u), (S.nla_F, nq), "la_FDOF", "qDOF", lambda c: c.gamma_F_q(t, qs(c), us(c)), hf)
    mat("W_F", lambda: S.W_F(t, q), (nu, S.nla_F), "uDOF", "la_FDOF", lambda c: c.W_F(t, qs(c)), hf)
    vec("gamma_F_dot", lambda: S.gamma_F_dot(t, q, u, ud), S.nla_F, "la_FDOF",
        lambda c: c.gamma_F_dot(t, qs(c), us(c), uds(c)), hf)
    mat("Wla_F_q", lambda: S.Wla_F_q(t, q, la_F), (nu, nq), "uDOF", "qDOF",
        lambda c: c.Wla_F_q(t, qs(c), la_F[c.la_FDOF]), hf)
    return T


def _layout(system):
    out = {}
    for k in ("nq", "nu", "nla_g", "nla_gamma", "nla_c", "nla_tau", "ntau", "nla_S", "nla_N", "nla_F"):
        out[k] = int(getattr(system, k))
    for c in system.contributions:
        for a in ("my_qDOF", "qDOF", "my_uDOF", "uDOF", "la_gDOF", "la_cDOF", "la_tauDOF", "tauDOF", "la_SDOF", "la_NDOF", "la_FDOF"):
            if hasattr(c, a):
                out[f"{c.name}.{a}"] = [int(i) for i in np.asarray(getattr(c, a)).reshape(-1)]
    return out


def _state(spec, system):
    s = spec["seed_state"]
    cyc = lambda n, k, sc: np.array([(s[(i * 7 + k) % len(s)]) * sc for i in range(n)], dtype=float)
    q = system.q0 + cyc(system.nq, 0, 0.2)
    u = cyc(system.nu, 3, 1.5)
    ud = cyc(system.nu, 5, 1.5)
    la = {"g": cyc(system.nla_g, 1, 2.0), "c": cyc(system.nla_c, 2, 2.0), "N": cyc(system.nla_N, 4, 2.0),
          "F": cyc(system.nla_F, 6, 2.0)}
    return 0.37 + system.t0, q, u, ud, la


def check_config(spec, res):
    system = build_config(spec)
    site = "System"
    feats = {"parts": "+".join(sorted(set(p["part"] for p in spec["parts"])))}
    t, q, u, ud, la = _state(spec, system)

    # ---- partition of the global index sets ------------------------------------------------
    for dof, n, attr in (("my_qDOF", system.nq, "nq"), ("my_uDOF", system.nu, "nu"), ("la_gDOF", system.nla_g, "nla_g"),
                         ("la_cDOF", system.nla_c, "nla_c"), ("la_tauDOF", system.nla_tau, "nla_tau"),
                         ("la_SDOF", system.nla_S, "nla_S"), ("la_NDOF", system.nla_N, "nla_N"),
                         ("la_FDOF", system.nla_F, "nla_F")):
        allidx = []
        for c in system.contributions:
            if hasattr(c, attr) and hasattr(c, dof):
                allidx.extend(int(i) for i in getattr(c, dof))
        res.ok()
        if sorted(allidx) != list(range(n)):
            res.fail("index_sets_partition", f"System.{dof}", None, feats, f"{sorted(allidx)[:12]} vs range({n})")

    # ---- dense reference --------------------------------------------------------------------
    def run_table(S):
        vals = {}
        for name, sys_call, ref_call in reference_table(S, t, q, u, ud, la):
            try:
                vals[name] = (np.asarray(sysbuild.dense(sys_call()), dtype=float), ref_call)
            except NotImplementedError:
                vals[name] = None
        return vals

    import warnings

    with warnings.catch_warnings():
        warnings.simplefilter("ignore")
        vals = run_table(system)
        overlap = 0
        for name, v in vals.items():
            if v is None:
                continue
            got, ref_call = v
            ref = ref_call()
            res.ok()
            if got.shape != ref.shape:
                res.fail("equals_dense_reference", f"System.{name}", None, feats, f"shape {got.shape} vs {ref.shape}")
                continue
            err = float(np.max(np.abs(got - ref))) if got.size else 0.0
            sc = float(np.max(np.abs(ref))) if ref.size else 0.0
            # relative to the size of the reference's entries (a micro-scale model has a mass matrix of order 1e-13)
            if err > 1e-12 * sc:
                res.fail("equals_dense_reference", f"System.{name}", err, feats, f"err={err:.3e} max|ref|={sc:.3e}")
        # ---- re-assembly is idempotent -------------------------------------------------------
        lay0 = _layout(system)
        q00, u00 = system.q0.copy(), system.u0.copy()
        sysbuild.assemble(system)
        lay1 = _layout(system)
        res.ok()
        if lay0 != lay1:
            diff = [k for k in set(lay0) | set(lay1) if lay0.get(k) != lay1.get(k)]
            res.fail("reassemble_keeps_layout", "System.assemble", None, feats, f"changed: {sorted(diff)[:6]}")
        else:
            res.ok()
            if not (np.array_equal(q00, system.q0) and np.array_equal(u00, system.u0)):
                res.fail("reassemble_keeps_initial_state", "System.assemble", None, feats)
            vals2 = run_table(system)
            for name, v in vals.items():
                if v is None or vals2.get(name) is None:
                    continue
                res.ok()
                a, b = v[0], vals2[name][0]
                if a.shape != b.shape or (a.size and float(np.max(np.abs(a - b))) > 1e-13 * (1 + float(np.max(np.abs(a))))):
                    res.fail("reassemble_keeps_evaluations", f"System.{name}", None, feats)
        # ---- handing the system its own initial state keeps layout and state ------------------------
        from cardillo.solver import SolverOptions
        lay0 = _layout(system)
        q00, u00 = system.q0.copy(), system.u0.copy()
        with quiet():
            system.set_new_initial_state(q00.copy(), u00.copy(), options=SolverOptions(compute_consistent_initial_conditions=False))
        res.ok()
        if _layout(system) != lay0:
            res.fail("reassemble_keeps_layout", "System.set_new_initial_state", None, feats)
        elif system.q0.shape != q00.shape or system.u0.shape != u00.shape or not (
                np.allclose(q00, system.q0, rtol=0, atol=1e-14) and np.allclose(u00, system.u0, rtol=0, atol=1e-14)):
            res.fail("reassemble_keeps_initial_state", "System.set_new_initial_state", None, feats,
                     f"q0 {q00.shape}->{system.q0.shape}")
    # overlapping contributions on the same DOFs
    cnt = np.zeros(system.nu, dtype=int)
    for c in system.contributions:
        if _has(c, "h") and hasattr(c, "uDOF"):
            cnt[np.asarray(c.uDOF, dtype=int)] += 1
    res.nontrivial = bool(system.nu and cnt.max() >= 2)
    res.label("config", *["part:" + p for p in sorted(set(p["part"] for p in spec["parts"]))])


# --------------------------------------------------------------------------------------
# history engine
# --------------------------------------------------------------------------------------
def check_history(spec, res):
    from cardillo import System
    from cardillo.discrete import RigidBody, PointMass, Frame
    from cardillo.constraints import Spherical

    with quiet():
        system = System()
    model = list(system.contributions)  # [origin]
    removed = []
    site = "System"
    feats = {}
    counter = [0]
    removed_then = False
    saw_remove = False
    gone = []  # contributions that were removed and not added again

    def new_body(op):
        counter[0] += 1
        k = op["kind"]
        pos = np.array([float(counter[0]), 0.0, 0.0])
        if k == "rigid":
            b = RigidBody(1.0, np.eye(3), q0=np.concatenate([pos, [1.0, 0, 0, 0]]))
        elif k == "point":
            b = PointMass(1.0, q0=pos)
        else:
            b = Frame(r_OP=pos)
        if op["named"]:
            b.name = op["name"]
        elif hasattr(b, "name") and k == "frame":
            pass
        return b

    def dependants(obj):
        return [c for c in model if getattr(c, "subsystem1", None) is obj or getattr(c, "subsystem2", None) is obj]

    def invariant(step, opname):
        names = [c.name for c in system.contributions]
        res.ok()
        if len(set(names)) != len(names):
            res.fail("names_unique", site, None, feats, f"step {step} ({opname}): {names}")
            return False
        res.ok()
        if list(system.contributions) != model or any(a is not b for a, b in zip(system.contributions, model)):
            res.fail("contributions_match_model", site, None, feats, f"step {step} ({opname})")
            return False
        m = system.contributions_map
        res.ok()
        if set(m.keys()) != set(names) or any(m[c.name] is not c for c in system.contributions):
            stale = sorted(set(m.keys()) - set(names))
            res.fail("registry_maps_exactly_current_contributions", site, None, feats,
                     f"step {step} ({opname}): stale={stale} missing={sorted(set(names) - set(m.keys()))}")
            return False
        return True

    for step, op in enumerate(spec["ops"]):
        o = op["op"]
        with quiet():
            if o == "add_body":
                b = new_body(op)
                system.add(b)
                model.append(b)
                if saw_remove:
                    removed_then = True
            elif o == "add_joint":
                bodies = [c for c in model if isinstance(c, (RigidBody, Frame))]  # subsystem 1 needs an extent
                movable = [c for c in model if isinstance(c, (RigidBody, PointMass))]
                if not movable or not bodies:
                    continue
                b2 = movable[op["i"] % len(movable)]
                b1 = bodies[op["j"] % len(bodies)]
                if b1 is b2:
                    b1 = system.origin if system.origin in model else None
                if b1 is None:
                    continue
                j = Spherical(b1, b2, r_OJ0=np.asarray(b2.q0[:3], dtype=float))
                if op["named"]:
                    j.name = op["name"]
                system.add(j)
                model.append(j)
            elif o == "add_duplicate":
                if not model:
                    continue
                c = model[op["i"] % len(model)]
                raised = False
                try:
                    system.add(c)
                except ValueError:
                    raised = True
                res.ok()
                if not raised:
                    res.fail("duplicate_add_raises", site, None, feats, f"step {step}")
                    return
            elif o in ("remove", "pop", "readd"):
                # a contribution that others refer to may be taken out only if it is put back at once (it then comes
                # after its dependants in the list)
                cands = [c for c in model if (o == "readd" or not dependants(c))]
                if not cands:
                    continue
                c = cands[op["i"] % len(cands)]
                if o == "pop":
                    system.pop(model.index(c))
                else:
                    system.remove(c)
                model.remove(c)
                if o != "readd":
                    gone.append(c)
                saw_remove = True
                if o == "readd":
                    if not invariant(step, "remove"):
                        return
                    name_before = c.name
                    system.add(c)
                    model.append(c)
                    removed_then = True
                    res.ok()
                    if c.name != name_before:
                        res.fail("readd_keeps_name", site, None, feats, f"step {step}: {name_before} -> {c.name}")
                        return
            elif o == "remove_absent":
                # removing something that is not in the system (never added, or removed before) is rejected and leaves the
                # registry alone - also when a current contribution carries the same name
                c = gone[op["i"] % len(gone)] if (gone and op["named"]) else new_body(dict(op, named=False))
                raised = False
                try:
                    system.remove(c)
                except (ValueError, KeyError):
                    raised = True
                res.ok()
                if not raised:
                    res.fail("remove_of_absent_raises", site, None, feats, f"step {step}")
                    return
            elif o == "extend":
                bs = [new_body(op), new_body(dict(op, kind="point"))]
                system.extend(bs)
                model.extend(bs)
                if saw_remove:
                    removed_then = True
            elif o == "assemble":
                # layout only: redundant joints generated here would make the consistency solve singular
                sysbuild.assemble(system)
                if saw_remove:
                    removed_then = True
                nq = sum(c.nq for c in model if hasattr(c, "nq"))
                nu = sum(c.nu for c in model if hasattr(c, "nu"))
                nla_g = sum(c.nla_g for c in model if hasattr(c, "nla_g"))
                res.ok()
                if (system.nq, system.nu, system.nla_g) != (nq, nu, nla_g):
                    res.fail("assembled_dimensions_match_model", site, None, feats,
                             f"step {step}: {(system.nq, system.nu, system.nla_g)} vs {(nq, nu, nla_g)}")
                    return
                # evaluations work on the assembled system; every joint was defined in the current configuration
                system.h(system.t0, system.q0, system.u0)
                gval = system.g(system.t0, system.q0)
                system.M(system.t0, system.q0)
                res.ok()
                if gval.size and float(np.max(np.abs(gval))) > 1e-10:
                    res.fail("joints_satisfied_after_assembly", site, float(np.max(np.abs(gval))), feats, f"step {step}")
                    return
        if not invariant(step, o):
            return
    res.nontrivial = removed_then
    res.label("history", f"ops:{min(30, 10 * (len(spec['ops']) // 10))}+")
    if removed_then:
        res.label("history:remove_then_add_or_assemble")


def check(spec):
    res = Result()
    if spec["kind"] == "config":
        check_config(spec, res)
    else:
        check_history(spec, res)
    return res
