"""C28 URDF import builds systems consistent with the described robot."""

import math
import os
import shutil
import tempfile

import numpy as np
from hypothesis import strategies as st

from harness import gen, sysbuild
from harness.runner import Result, quiet

PROPERTY = "C28"
LEVEL = "exploration"
RULE = (
    "case = URDF text generated from a grammar: a tree of 2..8 links (depth and branching 1..4), joint types from "
    "{fixed, revolute, continuous, prismatic, floating, planar}, random joint origins (xyz, rpy), axes (un-normalised, "
    "axis-aligned or generic; planar: z), inertial origins (xyz, rpy), masses and SPD inertias; requested joint "
    "configurations and velocities (floating as 6- and 7-vectors); fixed or floating root with pose r_OR, A_IR and "
    "velocities v_R, omega. Non-trivial: depth >= 2 with at least one non-fixed joint at non-zero configuration and velocity."
)
ASSUMPTIONS = [
    "independent forward kinematics in the harness (composition of basic rotations per the URDF specification: "
    "rpy = fixed-axis roll, pitch, yaw; joint transform after the joint origin); link velocities by Richardson "
    "differences of that forward kinematics along the straight joint-space curve q + eps q_dot with the root moving",
    "planar joints use the axis z of the joint frame, the only reading on which the URDF specification and the "
    "importer's (x, y) configuration convention coincide; a floating 7-vector is (x, y, z, p0, p1, p2, p3) with the "
    "scalar part first, cardillo's own coordinate convention",
    "link velocities are not compared at or below a floating joint that was given a velocity (the meaning of that "
    "6-vector is not fixed by URDF); poses are",
    "poses agree to 1e-9, velocities to 1e-6*(1+|v|); joints: |g|, |g_dot| <= 1e-8; revolute angle equals the request",
    "no visuals (mesh files are not the subject)",
]
CASES = {"quick": 300, "thorough": 10000}
SHARDS = {"quick": 8, "thorough": 16}
TECHNIQUE = "grammar-generated URDF trees + configurations; reference model (independent forward kinematics, differenced for velocities) vs the imported system"
LEVEL_TEXT = (
    "Generated-input search from a URDF grammar with an independent forward-kinematics reference model for poses "
    "and velocities and the system's own constraint residuals for the joints. Sampling, not proof."
)
LEVEL_NOTE = "trusted: urdf_parser_py for parsing; the harness forward kinematics"

JTYPES = ["fixed", "revolute", "revolute", "continuous", "prismatic", "prismatic", "floating", "planar"]


@st.composite
def _pose(draw):
    return {"xyz": [draw(gen.f(-1, 1)) for _ in range(3)], "rpy": [draw(gen.f(-3, 3)), draw(gen.f(-1.4, 1.4)), draw(gen.f(-3, 3))]}


@st.composite
def _case(draw):
    nlinks = draw(st.integers(2, 8))
    links = []
    for i in range(nlinks):
        d = [draw(gen.f(0.05, 1.0)) for _ in range(3)]
        links.append({"name": f"link{i}", "mass": draw(gen.f(0.2, 5.0)), "inertial": draw(_pose()), "I": d,
                      "Irot": draw(gen.rotvec(min_exp=-2, near_max=False))})
        if draw(st.integers(0, 3)) == 0:
            # <inertial> without an <origin> element: the inertial frame is the link frame
            links[-1]["inertial"] = {"xyz": [0.0, 0.0, 0.0], "rpy": [0.0, 0.0, 0.0]}
            links[-1]["no_origin"] = True
    joints = []
    depth = {0: 0}
    nchild = {}
    for i in range(1, nlinks):
        cands = [p for p in range(i) if nchild.get(p, 0) < 4 and depth[p] < 4]
        p = draw(st.sampled_from(cands)) if cands else i - 1
        nchild[p] = nchild.get(p, 0) + 1
        depth[i] = depth[p] + 1
        jt = draw(st.sampled_from(JTYPES))
        ax_kind = draw(st.sampled_from(["x", "y", "z", "neg", "generic", "generic"]))
        axis = {"x": [1.0, 0, 0], "y": [0, 1.0, 0], "z": [0, 0, 1.0], "neg": [-1.0, 0, 0]}.get(ax_kind)
        if axis is None:
            axis = (np.array(draw(gen.unit_vec3(special=False))) * draw(gen.f(0.5, 3.0))).tolist()
        j = {"name": f"joint{i}", "type": jt, "parent": p, "child": i, "origin": draw(_pose()), "axis": axis}
        if jt in ("revolute", "continuous"):
            j["q"] = draw(st.sampled_from([0.0, None, None])) if False else draw(gen.f(-3.0, 3.0)) * draw(st.sampled_from([0, 1, 1, 1]))
            j["qd"] = draw(gen.f(-2, 2))
        elif jt == "prismatic":
            j["q"] = draw(gen.f(-1, 1)) * draw(st.sampled_from([0, 1, 1, 1]))
            j["qd"] = draw(gen.f(-2, 2))
        elif jt == "planar":
            j["axis"] = [0.0, 0.0, 1.0]
            j["q"] = [draw(gen.f(-1, 1)), draw(gen.f(-1, 1))]
            j["qd"] = [draw(gen.f(-2, 2)), draw(gen.f(-2, 2))]
        elif jt == "floating":
            j["fmt"] = draw(st.sampled_from(["rpy6", "quat7"]))
            j["q"] = {"xyz": [draw(gen.f(-1, 1)) for _ in range(3)], "rpy": [draw(gen.f(-3, 3)), draw(gen.f(-1.4, 1.4)), draw(gen.f(-3, 3))]}
            j["qd"] = [draw(gen.f(-2, 2)) for _ in range(6)]
        j["given"] = draw(st.integers(0, 5)) > 0  # sometimes the joint is left out of the dictionaries (defaults)
        joints.append(j)
    if draw(st.integers(0, 5)) == 0:
        # a structured, axis-aligned tree: unrotated joint origins, coordinate-axis joint axes, revolute joints at angle 0
        # (relative rotations are then exactly zero, not zero up to round-off)
        for j in joints:
            j["origin"]["rpy"] = [0.0, 0.0, 0.0]
            if j["type"] in ("revolute", "continuous", "prismatic"):
                j["axis"] = draw(st.sampled_from([[1.0, 0, 0], [0, 1.0, 0], [0, 0, 1.0]]))
            if j["type"] in ("revolute", "continuous") and draw(st.booleans()):
                j["q"] = 0.0
    # massless marker frames (tcp, camera, ...) attached by fixed joints; they are leaves and carry no body. The position
    # in the file decides where they appear among their parent's children.
    markers = [{"parent": draw(st.integers(0, nlinks - 1)), "at": draw(st.integers(0, max(0, nlinks - 1))), "origin": draw(_pose())}
               for _ in range(draw(st.sampled_from([0, 0, 1, 2])))]
    return {"links": links, "joints": joints, "markers": markers, "floating_root": draw(st.booleans()),
            "r_OR": [draw(gen.f(-2, 2)) for _ in range(3)], "psi_R": draw(gen.rotvec(min_exp=-2, near_max=False)),
            "v_R": [draw(gen.f(-2, 2)) for _ in range(3)], "omega_R": [draw(gen.f(-2, 2)) for _ in range(3)],
            "moving_root": draw(st.booleans())}


def strategy(tier):
    return _case()


def static_cases(tier):
    out = []
    pose = lambda x, r: {"xyz": x, "rpy": r}
    lk = lambda i: {"name": f"link{i}", "mass": 1.0 + i, "inertial": pose([0.1, -0.2, 0.3], [0.3, -0.2, 0.5]), "I": [0.1, 0.2, 0.3], "Irot": [0.1, 0.2, 0.3]}
    for jt in ("fixed", "revolute", "continuous", "prismatic", "floating", "planar"):
        for fmt in (("rpy6", "quat7") if jt == "floating" else (None,)):
            j = {"name": "joint1", "type": jt, "parent": 0, "child": 1, "origin": pose([0.5, 0.1, -0.2], [0.2, 0.4, -0.6]),
                 "axis": [0.0, 0.0, 1.0] if jt == "planar" else [0.3, -2.0, 1.0], "given": True}
            if jt in ("revolute", "continuous", "prismatic"):
                j.update(q=0.7, qd=-1.1)
            if jt == "planar":
                j.update(q=[0.3, -0.4], qd=[1.0, 0.5])
            if jt == "floating":
                j.update(fmt=fmt, q=pose([0.2, 0.3, -0.1], [0.5, -0.3, 1.0]), qd=[0.1, 0.2, 0.3, -0.4, 0.5, 0.6])
            j2 = {"name": "joint2", "type": "revolute", "parent": 1, "child": 2, "origin": pose([0.0, 0.4, 0.1], [0.0, 0.3, 0.0]),
                  "axis": [0.0, 1.0, 0.0], "q": -0.4, "qd": 0.8, "given": True}
            for fr in (False, True):
                out.append({"links": [lk(0), lk(1), lk(2)], "joints": [j, j2], "floating_root": fr, "r_OR": [0.3, -0.1, 0.2],
                            "psi_R": [0.2, -0.3, 0.4], "v_R": [0.5, 0.1, -0.2], "omega_R": [0.3, 0.2, -0.1], "moving_root": fr})
    return out


# --------------------------------------------------------------------------------------
def _Rx(a):
    c, s = math.cos(a), math.sin(a)
    return np.array([[1, 0, 0], [0, c, -s], [0, s, c]])


def _Ry(a):
    c, s = math.cos(a), math.sin(a)
    return np.array([[c, 0, s], [0, 1, 0], [-s, 0, c]])


def _Rz(a):
    c, s = math.cos(a), math.sin(a)
    return np.array([[c, -s, 0], [s, c, 0], [0, 0, 1]])


def _rpy(rpy):
    return _Rz(rpy[2]) @ _Ry(rpy[1]) @ _Rx(rpy[0])


def _inertia(l):
    R = gen._exp(np.array(l["Irot"], dtype=float))
    return R @ np.diag(l["I"]) @ R.T


def urdf_text(spec):
    f = lambda v: " ".join(repr(float(x)) for x in v)
    out = ['<?xml version="1.0"?>', '<robot name="generated">']
    for l in spec["links"]:
        I = _inertia(l)
        origin = "" if l.get("no_origin") else f'<origin xyz="{f(l["inertial"]["xyz"])}" rpy="{f(l["inertial"]["rpy"])}"/>'
        out.append(f'  <link name="{l["name"]}"><inertial>{origin}'
                   f'<mass value="{float(l["mass"])!r}"/><inertia ixx="{float(I[0,0])!r}" ixy="{float(I[0,1])!r}" ixz="{float(I[0,2])!r}" iyy="{float(I[1,1])!r}" '
                   f'iyz="{float(I[1,2])!r}" izz="{float(I[2,2])!r}"/></inertial></link>')
    jlines = []
    for j in spec["joints"]:
        lim = '<limit lower="-10" upper="10" effort="100" velocity="100"/>' if j["type"] in ("revolute", "prismatic") else ""
        jlines.append(f'  <joint name="{j["name"]}" type="{j["type"]}"><parent link="link{j["parent"]}"/><child link="link{j["child"]}"/>'
                      f'<origin xyz="{f(j["origin"]["xyz"])}" rpy="{f(j["origin"]["rpy"])}"/><axis xyz="{f(j["axis"])}"/>{lim}</joint>')
    for k, mk in enumerate(spec.get("markers", [])):
        out.append(f'  <link name="marker{k}"/>')
        jlines.insert(min(mk["at"], len(jlines)),
                      f'  <joint name="marker_joint{k}" type="fixed"><parent link="link{mk["parent"]}"/><child link="marker{k}"/>'
                      f'<origin xyz="{f(mk["origin"]["xyz"])}" rpy="{f(mk["origin"]["rpy"])}"/></joint>')
    out.extend(jlines)
    out.append("</robot>")
    return "\n".join(out)


def dictionaries(spec):
    cfg, vel = {}, {}
    for j in spec["joints"]:
        if not j["given"] or j["type"] == "fixed":
            continue
        if j["type"] == "floating":
            A = _rpy(j["q"]["rpy"])
            if j["fmt"] == "rpy6":
                cfg[j["name"]] = np.array(list(j["q"]["xyz"]) + list(j["q"]["rpy"]))
            else:
                # scalar-first unit quaternion of A (harness-side conversion)
                tr = np.trace(A)
                if tr > 0:
                    w = math.sqrt(1 + tr) / 2
                    qv = np.array([A[2, 1] - A[1, 2], A[0, 2] - A[2, 0], A[1, 0] - A[0, 1]]) / (4 * w)
                else:
                    i = int(np.argmax(np.diag(A)))
                    jx, k = (i + 1) % 3, (i + 2) % 3
                    qi = math.sqrt(max(1 + A[i, i] - A[jx, jx] - A[k, k], 0)) / 2
                    qv = np.zeros(3)
                    qv[i] = qi
                    qv[jx] = (A[jx, i] + A[i, jx]) / (4 * qi)
                    qv[k] = (A[k, i] + A[i, k]) / (4 * qi)
                    w = (A[k, jx] - A[jx, k]) / (4 * qi)
                cfg[j["name"]] = np.array(list(j["q"]["xyz"]) + [w, *qv])
            vel[j["name"]] = np.array(j["qd"], dtype=float)
        else:
            cfg[j["name"]] = j["q"]
            vel[j["name"]] = j["qd"]
    return cfg, vel


def forward_kinematics(spec, eps=0.0):
    """Reference: pose (r_C, A_B) of every link's inertial frame at joint coordinates q + eps*q_dot with the root
    moving with (v_R, omega_R given in the root frame)."""
    A_IR = gen._exp(np.array(spec["psi_R"], dtype=float))
    r_OR = np.array(spec["r_OR"], dtype=float)
    if spec["moving_root"] and eps != 0.0:
        r_OR = r_OR + eps * np.array(spec["v_R"], dtype=float)
        A_IR = A_IR @ gen._exp(eps * np.array(spec["omega_R"], dtype=float))
    frames = {0: (r_OR, A_IR)}
    for j in spec["joints"]:
        rp, Ap = frames[j["parent"]]
        AJ = _rpy(j["origin"]["rpy"])
        rJ = rp + Ap @ np.array(j["origin"]["xyz"], dtype=float)
        A = Ap @ AJ
        t = j["type"]
        on = j["given"]
        ax = np.array(j["axis"], dtype=float)
        ax = ax / np.linalg.norm(ax)
        if t in ("revolute", "continuous"):
            q = (j["q"] + eps * j["qd"]) if on else 0.0
            frames[j["child"]] = (rJ, A @ gen._exp(ax * q))
        elif t == "prismatic":
            q = (j["q"] + eps * j["qd"]) if on else 0.0
            frames[j["child"]] = (rJ + A @ (ax * q), A)
        elif t == "planar":
            q = (np.array(j["q"]) + eps * np.array(j["qd"])) if on else np.zeros(2)
            frames[j["child"]] = (rJ + A @ np.array([q[0], q[1], 0.0]), A)
        elif t == "floating":
            if on:
                d = np.array(j["q"]["xyz"]) + eps * np.array(j["qd"][:3])
                # angular velocity given in the joint frame J: A_J_Rc(eps) = Exp(eps w) A_J_Rc
                Aj = gen._exp(eps * np.array(j["qd"][3:])) @ _rpy(j["q"]["rpy"])
            else:
                d, Aj = np.zeros(3), np.eye(3)
            frames[j["child"]] = (rJ + A @ d, A @ Aj)
        else:
            frames[j["child"]] = (rJ, A)
    out = {}
    for i, l in enumerate(spec["links"]):
        r, A = frames[i]
        out[l["name"]] = (r + A @ np.array(l["inertial"]["xyz"], dtype=float), A @ _rpy(l["inertial"]["rpy"]))
    return out


def check(spec):
    from cardillo.urdf.system_from_urdf import system_from_urdf

    res = Result()
    types = sorted(set(j["type"] for j in spec["joints"]))
    feats = {"types": "+".join(types), "floating_root": spec["floating_root"]}
    site = "system_from_urdf"
    d = tempfile.mkdtemp(prefix="c28_")
    try:
        path = os.path.join(d, "robot.urdf")
        with open(path, "w") as fh:
            fh.write(urdf_text(spec))
        cfg, vel = dictionaries(spec)
        A_IR = gen._exp(np.array(spec["psi_R"], dtype=float))
        kw = dict(r_OR=np.array(spec["r_OR"], dtype=float), A_IR=A_IR, configuration=cfg, velocities=vel,
                  root_is_floating=spec["floating_root"])
        if spec["moving_root"]:
            kw.update(v_R=np.array(spec["v_R"], dtype=float), R_omega_IR=np.array(spec["omega_R"], dtype=float))
        if not spec["floating_root"] and spec["moving_root"]:
            # a fixed root cannot move: the importer builds a constant Frame; request a root at rest
            spec = dict(spec, moving_root=False)
            kw.pop("v_R")
            kw.pop("R_omega_IR")
        try:
            with quiet():
                system = system_from_urdf(path, **kw)
        except Exception as e:
            import traceback

            tb = traceback.extract_tb(e.__traceback__)
            where = [f for f in tb if "cardillo" in f.filename]
            loc = f"{os.path.basename(where[-1].filename)}:{where[-1].name}" if where else "?"
            jt = "+".join(types)
            res.ok()
            res.fail("import_succeeds", f"{site}[{type(e).__name__}@{loc}]", None, feats, f"{type(e).__name__}: {e} (joint types {jt})")
            return res
    finally:
        shutil.rmtree(d, ignore_errors=True)

    # ---- link poses and velocities vs the reference forward kinematics ---------------------------------
    ref = forward_kinematics(spec)
    h = 1e-3
    fk = {e_: forward_kinematics(spec, e_) for e_ in (h, -h, h / 2, -h / 2)}
    worst_pose, worst_vel = 0.0, 0.0
    # the velocity of a floating joint is a 6-vector whose meaning (time derivative of the joint coordinates vs a
    # twist of the child) is not specified by URDF: links at or below such a joint are compared in pose only
    ambiguous = set()
    for j in spec["joints"]:
        if (j["type"] == "floating" and j["given"]) or j["parent"] in ambiguous:
            ambiguous.add(j["child"])
    for i, l in enumerate(spec["links"]):
        name = l["name"]
        if name not in system.contributions_map:
            res.fail("every_link_is_imported", site, None, feats, name)
            continue
        body = system.contributions_map[name]
        rC, AB = ref[name]
        if hasattr(body, "nq") and body.nq == 7:
            r = np.asarray(body.q0[:3], dtype=float)
            A = gen.quat_to_R(np.asarray(body.q0[3:], dtype=float))
        else:
            r, A = np.asarray(body.r_OP(system.t0), dtype=float), np.asarray(body.A_IB(system.t0), dtype=float)
        worst_pose = max(worst_pose, float(np.max(np.abs(r - rC))), float(np.max(np.abs(A - AB))))
        if hasattr(body, "nu") and body.nu == 6 and i not in ambiguous:
            d1 = (fk[h][name][0] - fk[-h][name][0]) / (2 * h)
            d2 = (fk[h / 2][name][0] - fk[-h / 2][name][0]) / h
            v = (4 * d2 - d1) / 3
            dA1 = (fk[h][name][1] - fk[-h][name][1]) / (2 * h)
            dA2 = (fk[h / 2][name][1] - fk[-h / 2][name][1]) / h
            dA = (4 * dA2 - dA1) / 3
            S = AB.T @ dA
            Bw = np.array([S[2, 1] - S[1, 2], S[0, 2] - S[2, 0], S[1, 0] - S[0, 1]]) / 2
            u = np.asarray(body.u0, dtype=float)
            sc = 1.0 + float(np.max(np.abs(np.concatenate([v, Bw]))))
            worst_vel = max(worst_vel, float(np.max(np.abs(u[:3] - v))) / sc, float(np.max(np.abs(u[3:] - Bw))) / sc)
    res.ok()
    if worst_pose > 1e-9:
        res.fail("link_pose_is_forward_kinematics", site, worst_pose, feats, f"pose error {worst_pose:.3e} (joint types {feats['types']})")
    res.ok()
    if worst_vel > 1e-6:
        res.fail("link_velocity_is_forward_kinematics", site, worst_vel, feats, f"velocity error {worst_vel:.3e} (joint types {feats['types']})")

    # ---- joints satisfied on position and velocity level -----------------------------------------------
    if system.nla_g:
        g = float(np.max(np.abs(system.g(system.t0, system.q0))))
        gd = float(np.max(np.abs(system.g_dot(system.t0, system.q0, system.u0))))
        res.ok()
        if g > 1e-8:
            res.fail("joints_satisfied:g", site, g, feats)
        res.ok()
        if gd > 1e-8 * (1 + float(np.max(np.abs(system.u0)))):
            res.fail("joints_satisfied:g_dot", site, gd, feats)
    # ---- reported joint coordinates -------------------------------------------------------------------
    for j in spec["joints"]:
        if j["type"] in ("revolute", "continuous") and j["name"] in system.contributions_map:
            jo = system.contributions_map[j["name"]]
            want = j["q"] if j["given"] else 0.0
            got = float(jo.angle(system.t0, system.q0[jo.qDOF]))
            res.ok()
            if abs(got - want) > 1e-9 * (1 + abs(want)):
                res.fail("reports_requested_joint_angle", site, abs(got - want), feats, f"{j['name']}: {got} vs {want}")
            wantd = j["qd"] if j["given"] else 0.0
            gotd = float(jo.angle_dot(system.t0, system.q0[jo.qDOF], system.u0[jo.uDOF]))
            res.ok()
            if abs(gotd - wantd) > 1e-8 * (1 + abs(wantd)):
                res.fail("reports_requested_joint_rate", site, abs(gotd - wantd), feats, f"{j['name']}: {gotd} vs {wantd}")
    depth = {0: 0}
    for j in spec["joints"]:
        depth[j["child"]] = depth[j["parent"]] + 1
    moving = any(j["type"] != "fixed" and j["given"] and np.any(np.abs(np.atleast_1d(
        j["q"]["xyz"] if isinstance(j.get("q"), dict) else j.get("q", 0.0))) > 0) for j in spec["joints"])
    res.nontrivial = max(depth.values()) >= 2 and moving
    if spec.get("markers"):
        res.label("massless_marker_frames")
    if any(l.get("no_origin") for l in spec["links"]):
        res.label("inertial_without_origin")
    res.label(*["joint:" + t for t in types], "root:floating" if spec["floating_root"] else "root:fixed")
    return res
