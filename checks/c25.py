"""C25 Revolute joint angle tracks the accumulated relative rotation."""

import math

import numpy as np
from hypothesis import strategies as st

from harness import gen, build, sysbuild
from harness.runner import Result

PROPERTY = "C25"
LEVEL = "exploration"
RULE = (
    "history = a Revolute joint between (fixed Frame | Frame turning about the joint axis with a prescribed rate | RigidBody) and a RigidBody with generated axis index, joint "
    "basis A_IJ0, joint point r_OJ0 and angle0, followed by up to 300 operations: rotate body 2 about the joint axis "
    "by an increment in (-pi/2, pi/2) (increments are drawn with a persistent sign so that several full turns in "
    "both directions occur), move both bodies by a common rigid motion, rescale a quaternion (non-unit), query the "
    "angle, query twice, query the angle rate with random velocities, reset, re-assemble the system. Model: angle0 + sum of increments "
    "(after reset: angle0 + the accumulated rotation wrapped to [-pi/2, 3pi/2), the initial tracking state). "
    "Non-trivial: |accumulated rotation| exceeded 2 pi and the direction of rotation changed at least once."
)
ASSUMPTIONS = [
    "the angle is queried after every rotation (the property's sampling condition: increments smaller than a quarter "
    "turn between samples)",
    "tolerance 1e-9*(1+|angle|); a repeated query must return the identical value; rate compared with "
    "(omega_2 - omega_1).e_axis to 1e-10",
    "reset() is documented to restore the initial tracking state (no full turns, first quadrant)",
]
CASES = {"quick": 600, "thorough": 20000}
SHARDS = {"quick": 6, "thorough": 16}
TECHNIQUE = "model-based generated operation histories (rotate / move / rescale / query / reset) against an accumulated-angle reference model"
LEVEL_TEXT = (
    "Generated operation histories of up to 300 steps compared after every step with a reference model of the "
    "accumulated angle; covers many full turns in both directions, all axes and joint orientations. Sampling."
)
LEVEL_NOTE = "trusted: the harness's rigid-motion bookkeeping (independent quaternion routines)"

LIM = math.pi / 2 - 1e-6


@st.composite
def _history(draw):
    setup = {
        # frame_rotating: a Frame that turns about the joint axis through the joint point with rate w (prescribed motion)
        "body1": draw(st.sampled_from(["frame", "rigid", "rigid", "frame_rotating"])),
        "w": draw(gen.f(0.3, 3.0)) * draw(st.sampled_from([1.0, -1.0])),
        "axis": draw(st.integers(0, 2)),
        "psi_J": draw(gen.rotvec(min_exp=-2, near_max=False)),
        "r_OJ0": [draw(gen.f(-1, 1)) for _ in range(3)],
        "angle0": draw(gen.f(-6.0, 6.0)),
        "P1": draw(gen.unit_quat()), "r1": [draw(gen.f(-1, 1)) for _ in range(3)],
        "P2": draw(gen.unit_quat()), "r2": [draw(gen.f(-1, 1)) for _ in range(3)],
    }
    n = draw(st.integers(1, 300))
    ops = []
    sign = 1.0
    for _ in range(n):
        kind = draw(st.sampled_from(["rot", "rot", "rot", "rot", "rot", "rot", "flip", "move", "rescale", "twice", "rate", "reset", "reassemble", "time"]))
        if kind == "flip":
            sign = -sign
            kind = "rot"
        if kind == "rot":
            mag = draw(st.sampled_from(["big", "big", "small", "edge"]))
            d = draw(gen.f(0.5, LIM)) if mag == "big" else draw(gen.f(0.0, 0.3)) if mag == "small" else LIM
            if draw(st.integers(0, 9)) == 0:
                d = -d
            ops.append({"op": "rot", "d": sign * d})
        elif kind == "time":
            # let time pass: a prescribed frame turns by d about the joint axis (no effect for other first bodies)
            ops.append({"op": "time", "d": draw(gen.f(-LIM, LIM))})
        elif kind == "move":
            ops.append({"op": "move", "psi": draw(gen.rotvec(min_exp=-2, near_max=False)), "b": [draw(gen.f(-1, 1)) for _ in range(3)]})
        elif kind == "rescale":
            ops.append({"op": "rescale", "s1": draw(gen.f(0.5, 2.0)), "s2": draw(gen.f(0.5, 2.0))})
        elif kind == "rate":
            ops.append({"op": "rate", "u": [draw(gen.f(-3, 3)) for _ in range(12)]})
        else:
            ops.append({"op": kind})
    return {"setup": setup, "ops": ops}


def strategy(tier):
    return _history()


def _qmul(a, b):
    return np.array([a[0] * b[0] - a[1:] @ b[1:], *(a[0] * b[1:] + b[0] * a[1:] + np.cross(a[1:], b[1:]))])


def _axis_quat(e, ang):
    return np.concatenate([[math.cos(ang / 2)], math.sin(ang / 2) * e])


def check(spec):
    from cardillo.discrete import Frame, RigidBody

    res = Result()
    su = spec["setup"]
    site = f"Revolute[{su['body1']}]"
    feats = {"body1": su["body1"], "axis": su["axis"]}
    system = sysbuild.new_system(0.0)
    q1 = np.array(list(su["r1"]) + list(su["P1"]), dtype=float)
    q2 = np.array(list(su["r2"]) + list(su["P2"]), dtype=float)
    A_IJ = gen._exp(np.array(su["psi_J"], dtype=float))
    e0 = A_IJ[:, su["axis"]].copy()
    rJ0 = np.array(su["r_OJ0"], dtype=float)
    w = float(su.get("w", 1.0))
    if su["body1"] == "frame_rotating":
        A10 = gen.quat_to_R(q1[3:])
        K = gen._skew(e0)
        b1 = Frame(r_OP=rJ0.copy(), A_IB=lambda t_: gen._exp(e0 * w * t_) @ A10,
                   A_IB_t=lambda t_: w * K @ gen._exp(e0 * w * t_) @ A10,
                   A_IB_tt=lambda t_: w * w * K @ K @ gen._exp(e0 * w * t_) @ A10, name="b1")
    elif su["body1"] == "frame":
        b1 = Frame(r_OP=q1[:3].copy(), A_IB=gen.quat_to_R(q1[3:]), name="b1")
    else:
        b1 = RigidBody(1.0, np.eye(3), q0=q1.copy(), name="b1")
    b2 = RigidBody(1.0, np.eye(3), q0=q2.copy(), name="b2")
    js = {"type": "Revolute", "axis": su["axis"], "angle0": su["angle0"], "r_OJ0": su["r_OJ0"], "psi_J": su["psi_J"]}
    joint = sysbuild.make_joint(js, b1, b2)
    system.add(b1, b2, joint)
    sysbuild.assemble(system)
    e = e0.copy()
    rJ = rJ0.copy()
    movable1 = su["body1"] == "rigid"
    tcur = [0.0]

    def state():
        return np.concatenate([q1, q2]) if movable1 else q2.copy()

    def query():
        return float(joint.l(tcur[0], state()))

    model = su["angle0"]
    total = 0.0  # accumulated rotation since assembly
    max_abs = 0.0
    dirs = set()
    a0 = query()
    res.ok()
    if abs(a0 - model) > 1e-9 * (1 + abs(model)):
        res.fail("angle_at_definition_is_angle0", site, abs(a0 - model), feats)
        return res
    for i, op in enumerate(spec["ops"]):
        o = op["op"]
        if o == "rot":
            d = op["d"]
            R = gen._exp(e * d)
            q2 = np.concatenate([rJ + R @ (q2[:3] - rJ), _qmul(_axis_quat(e, d), q2[3:])])
            model += d
            total += d
            max_abs = max(max_abs, abs(total))
            if abs(d) > 1e-9:
                dirs.add(d > 0)
            got = query()
            res.ok()
            if abs(got - model) > 1e-9 * (1 + abs(model)):
                res.fail("angle_is_initial_angle_plus_accumulated_rotation", site, abs(got - model), feats,
                         f"step {i}: reported {got:.9f}, model {model:.9f} (increment {d:.6f})")
                return res
        elif o == "time":
            if su["body1"] != "frame_rotating":
                continue
            d = op["d"]
            tcur[0] += d / w
            model -= d
            total -= d
            max_abs = max(max_abs, abs(total))
            got = query()
            res.ok()
            if abs(got - model) > 1e-9 * (1 + abs(model)):
                res.fail("angle_follows_prescribed_frame_rotation", site, abs(got - model), feats,
                         f"step {i}: reported {got:.9f}, model {model:.9f} (frame turned by {d:.6f})")
                return res
        elif o == "move":
            if not movable1:
                continue
            Rc = gen._exp(np.array(op["psi"], dtype=float))
            bc = np.array(op["b"], dtype=float)
            a = float(np.linalg.norm(op["psi"]))
            qc = _axis_quat(np.array(op["psi"]) / a, a) if a > 0 else np.array([1.0, 0, 0, 0])
            q1 = np.concatenate([Rc @ q1[:3] + bc, _qmul(qc, q1[3:])])
            q2 = np.concatenate([Rc @ q2[:3] + bc, _qmul(qc, q2[3:])])
            e = Rc @ e
            rJ = Rc @ rJ + bc
            got = query()
            res.ok()
            if abs(got - model) > 1e-9 * (1 + abs(model)):
                res.fail("common_rigid_motion_leaves_angle_unchanged", site, abs(got - model), feats, f"step {i}")
                return res
        elif o == "rescale":
            q1 = np.concatenate([q1[:3], q1[3:] * op["s1"]]) if movable1 else q1
            q2 = np.concatenate([q2[:3], q2[3:] * op["s2"]])
            got = query()
            res.ok()
            if abs(got - model) > 1e-9 * (1 + abs(model)):
                res.fail("quaternion_length_does_not_matter", site, abs(got - model), feats, f"step {i}")
                return res
            # bring the lengths back near one so that they do not drift to extremes
            if movable1:
                q1 = np.concatenate([q1[:3], q1[3:] / np.linalg.norm(q1[3:])])
            q2 = np.concatenate([q2[:3], q2[3:] / np.linalg.norm(q2[3:])])
        elif o == "twice":
            g1, g2 = query(), float(joint.angle(tcur[0], state()))
            res.ok()
            if g1 != g2 or abs(g1 - model) > 1e-9 * (1 + abs(model)):
                res.fail("repeated_query_does_not_change_the_angle", site, abs(g1 - g2), feats, f"step {i}: {g1!r} then {g2!r}")
                return res
        elif o == "rate":
            u = np.array(op["u"], dtype=float)
            u1, u2 = (u[:6], u[6:]) if movable1 else (np.zeros(0), u[6:])
            uu = np.concatenate([u1, u2])
            w1 = gen.quat_to_R(q1[3:]) @ u1[3:] if movable1 else np.zeros(3)
            w2 = gen.quat_to_R(q2[3:]) @ u2[3:]
            if su["body1"] == "frame_rotating":
                w1 = w * e
            want = float((w2 - w1) @ e)
            got = float(joint.l_dot(tcur[0], state(), uu))
            got2 = float(joint.angle_dot(tcur[0], state(), uu))
            res.ok()
            if abs(got - want) > 1e-10 * (1 + abs(want)) or got != got2:
                res.fail("rate_is_relative_angular_velocity_about_axis", site, abs(got - want), feats, f"step {i}")
                return res
        elif o == "reassemble":
            # assembling the system again (as System.set_new_initial_state does) must not disturb the tracking
            sysbuild.assemble(system)
            got = query()
            res.ok()
            if abs(got - model) > 1e-9 * (1 + abs(model)):
                res.fail("reassembly_keeps_the_angle", site, abs(got - model), feats,
                         f"step {i}: reported {got:.9f}, model {model:.9f}")
                return res
        elif o == "reset":
            joint.reset()
            phi = math.fmod(total, 2 * math.pi)
            if phi < -math.pi / 2:
                phi += 2 * math.pi
            if phi >= 1.5 * math.pi:
                phi -= 2 * math.pi
            # stay away from the quadrant boundary where the wrap is ambiguous by rounding
            if min(abs(phi + math.pi / 2), abs(phi - 1.5 * math.pi)) < 1e-6:
                # re-synchronise the model with the implementation instead of asserting at the boundary
                model = query()
                total = model - su["angle0"]
                continue
            model = su["angle0"] + phi
            total = phi
            got = query()
            res.ok()
            if abs(got - model) > 1e-9 * (1 + abs(model)):
                res.fail("reset_restores_initial_tracking_state", site, abs(got - model), feats,
                         f"step {i}: reported {got:.9f}, expected {model:.9f}")
                return res
    res.nontrivial = max_abs > 2 * math.pi and len(dirs) == 2
    res.label(site, f"axis={su['axis']}", "turns>=1" if max_abs > 2 * math.pi else "turns<1",
              "both_directions" if len(dirs) == 2 else "one_direction")
    return res
