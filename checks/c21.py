"""C21 Non-convergence is never silent  (fault enumeration)."""

import dataclasses
import re
import warnings

import numpy as np
from hypothesis import strategies as st

from harness import dynbuild, sysbuild
from harness.runner import Result, quiet

PROPERTY = "C21"
LEVEL = "fault_enumeration"
RULE = (
    "fault = (solver, system, injection site, armed step, continue_with_unconverged). Sites: the Newton solve of "
    "BackwardEuler (first solve of a step and the solves inside its fixed-point loop), Rattle, Newton (statics) and "
    "Riks, made to fail genuinely by running the real fsolve with one iteration from a perturbed start; the "
    "fixed-point loops of Moreau, BackwardEuler, Rattle stage 1 and stage 2 (the solver instance's prox map is "
    "perturbed alternately at the armed step so the loop cannot meet its tolerance), of DualStormerVerlet (its two "
    "module-level fixed-point helpers receive an alternately perturbed map) and of the consistency solve; plus "
    "ScipyIVP / ScipyDAE given a model with unilateral contacts. Systems: a rigid pendulum (smooth) and a ball "
    "resting on a plane with friction (contact active at every step). The generated search draws faults from this "
    "finite product; the static list enumerates every site at the first, a middle and the last step with both flag "
    "values (thorough: every step). Non-trivial: the injection took effect (the armed site was reached)."
)
ASSUMPTIONS = [
    "flag off: the call raises, or it returns a Solution that ends at the last converged instant (t[-1] = time before "
    "the armed step, no row for the failed step) and a warning was issued whose text contains that time",
    "flag on: a warning was issued and the run reaches t1; a solver that does not implement the flag and raises is "
    "counted as 'not silent' (labelled), not as a violation",
    "injection is done from the harness (rebinding the name fsolve / the fixed-point helpers in the solver module, "
    "wrapping prox on the solver instance); no source hook is needed",
    "ScipyIVP / ScipyDAE on a system with nla_N > 0: constructing or running must raise or warn",
]
CASES = {"quick": 60, "thorough": 600}
SHARDS = {"quick": 8, "thorough": 16}
EXHAUSTIVE = False
TECHNIQUE = "fault injection at enumerated nonlinear-solve / fixed-point sites x steps x flag; oracle: exception, or truncated Solution plus a warning naming the stop time"
LEVEL_TEXT = (
    "Fault enumeration: every nonlinear-solve and fixed-point site of every solver is made to fail at enumerated "
    "steps (all steps in the thorough tier) with the continue flag on and off; the oracle is observable behaviour "
    "(exception / warning text / length of the returned Solution). The site list is complete for the solvers in "
    "the repository at this commit; a new call site would need a new entry."
)
LEVEL_NOTE = "trusted: Python's warnings machinery; the injected failures are genuine (real fsolve run out of iterations, loops that cannot contract)"

NSTEPS = 8
DT = 5e-3

SITES = [
    ("BackwardEuler", "pendulum", "newton"),
    ("BackwardEuler", "ball", "newton"),
    ("BackwardEuler", "ball", "newton_in_fixed_point_loop"),
    ("BackwardEuler", "ball", "fixed_point"),
    ("Rattle", "pendulum", "newton"),
    ("Rattle", "ball", "newton"),
    ("Rattle", "ball", "fixed_point_stage1"),
    ("Rattle", "ball", "fixed_point_stage2"),
    ("Moreau", "ball", "fixed_point"),
    ("DualStormerVerlet", "pendulum", "fixed_point_midpoint"),
    ("DualStormerVerlet", "pendulum", "fixed_point_main"),
    ("DualStormerVerlet", "ball", "fixed_point_main"),
    ("Newton", "statics", "newton"),
    ("Riks", "statics", "newton"),
    ("consistent_initial_conditions", "ball", "fixed_point"),
    ("ScipyIVP", "ball", "contacts_not_supported"),
    ("ScipyDAE", "ball", "contacts_not_supported"),
    ("ScipyIVP", "ball_frictionless", "contacts_not_supported"),
    ("ScipyDAE", "ball_frictionless", "contacts_not_supported"),
]


def _all_faults(steps):
    out = []
    for solver, system, site in SITES:
        if site == "contacts_not_supported" or solver == "consistent_initial_conditions":
            out.append({"solver": solver, "system": system, "site": site, "step": 0, "flag": False})
            continue
        nst = 4 if solver in ("Newton", "Riks") else NSTEPS
        for s in ([-1, 0, 1] if solver == "Riks" else steps(nst)):  # Riks: -1 = the solve in __init__; it takes 2 steps here
            for flag in (False, True):
                out.append({"solver": solver, "system": system, "site": site, "step": s, "flag": flag})
                if site in ("fixed_point_midpoint", "fixed_point_main"):
                    out.append({"solver": solver, "system": system, "site": site, "step": s, "flag": flag, "nan": True})
                if site == "fixed_point_midpoint":
                    out.append({"solver": solver, "system": system, "site": site, "step": s, "flag": flag, "nan": True, "dsv_accelerated": False})
                    out.append({"solver": solver, "system": system, "site": site, "step": s, "flag": flag, "dsv_accelerated": False})
    return out


def static_cases(tier):
    if tier == "thorough":
        return _all_faults(lambda n: range(n))
    return _all_faults(lambda n: sorted({0, n // 2, n - 1}))


@st.composite
def _case(draw):
    solver, system, site = draw(st.sampled_from(SITES))
    nst = 4 if solver == "Newton" else 2 if solver == "Riks" else NSTEPS
    return {"solver": solver, "system": system, "site": site, "step": draw(st.integers(-1 if solver == "Riks" else 0, nst - 1)),
            "flag": draw(st.booleans()),
            # Jacobian of the nonlinear solves: analytic (default) or numerical (SolverOptions.numerical_jacobian_method)
            "num_jac": draw(st.sampled_from([False, False, "2-point", "3-point"])) if "newton" in site else False,
            # the sabotaged map of the DualStormerVerlet helpers returns finite alternating values (never converges) or NaN
            # (an iteration that overflowed)
            "nan": draw(st.booleans()) if site in ("fixed_point_midpoint", "fixed_point_main") else False,
            # DualStormerVerlet with the accelerated (default) or the plain main iteration
            "dsv_accelerated": draw(st.booleans()) if site == "fixed_point_midpoint" else True}


def strategy(tier):
    return _case()


# --------------------------------------------------------------------------------------
def build(system_kind, consistent_opts=None):
    from cardillo.contacts import Sphere2Plane
    from cardillo.discrete import Frame, RigidBody, PointMass
    from cardillo.forces import Force
    from cardillo.solver import SolverOptions

    system = sysbuild.new_system(0.0)
    if system_kind == "pendulum":
        rb = RigidBody(2.0, np.diag([0.1, 0.2, 0.3]), q0=np.array([0.7, 0.0, 0.0, 1.0, 0, 0, 0]), name="rb")
        system.add(rb)
        system.add(sysbuild.make_joint({"type": "Revolute", "axis": 1, "r_OJ0": [0.0] * 3, "psi_J": None}, system.origin, rb))
        system.add(Force(np.array([0.0, 0.0, -9.81 * 2.0]), rb, name="gravity"))
    elif system_kind in ("ball", "ball_frictionless"):
        ground = Frame(name="ground")
        rb = RigidBody(1.0, 0.4 * 0.01 * np.eye(3), q0=np.array([0.0, 0.0, 0.1, 1.0, 0, 0, 0]),
                       u0=np.array([0.4, 0.1, 0.0, 0.0, 0.0, 0.0]), name="ball")
        system.add(ground, rb)
        system.add(Force(np.array([0.3, 0.0, -9.81]), rb, name="gravity"))
        system.add(Sphere2Plane(ground, rb, mu=0.0 if system_kind == "ball_frictionless" else 0.3, r=0.1, e_N=0.0, name="contact"))
    else:  # statics: a point mass held by three springs, loaded proportionally to t
        pm = PointMass(1.0, q0=np.array([1.0, 0.2, -0.1]), name="pm")
        system.add(pm)
        for i, a in enumerate([[0.0, 0.0, 0.0], [2.0, 1.0, 0.5], [0.5, -1.5, 1.0]]):
            fr = Frame(r_OP=np.array(a), name=f"anchor{i}")
            system.add(fr)
            tpi = sysbuild.make_tpi({"B1": [0.0] * 3, "B2": [0.0] * 3, "name": f"tpi{i}"}, fr, pm)
            system.add(tpi)
            el = sysbuild.make_force_law({"type": "Spring", "k": 20.0, "l_ref": 0.8, "compliance": False}, tpi)
            el.name = f"spring{i}"
            system.add(el)
        system.add(Force(lambda t: t * np.array([0.5, 1.0, -2.0]), pm, name="load"))
    with quiet():
        system.assemble(options=consistent_opts or SolverOptions())
    return system


class Armed:
    """Shared state of one injection."""

    def __init__(self, step):
        self.step = step
        self.hit = 0
        self.calls_in_step = {}


def _floats_in(text):
    return [float(x) for x in re.findall(r"[-+]?\d+\.?\d*(?:[eE][-+]?\d+)?", text)]


def check(spec):
    """One fault; with continue_with_unconverged the same fault is injected a second time in the same process: the
    announcement must not depend on what an earlier run already reported."""
    res = _check_once(spec)
    if spec.get("flag") and not res.failures and spec["site"] != "contacts_not_supported":
        again = _check_once(spec)
        res.checked += again.checked
        for f in again.failures:
            res.fail(f["subcheck"], f["site"], f["magnitude"], f["features"], "(second identical run in the same process) " + (f["detail"] or ""))
    return res


def _check_once(spec):
    import cardillo.solver.backward_euler as m_be
    import cardillo.solver.rattle as m_rattle
    import cardillo.solver.statics as m_statics
    import cardillo.solver.dual_stormer_verlet as m_dsv
    from cardillo.math.fsolve import fsolve as real_fsolve
    from cardillo.solver import SolverOptions, Newton, Riks

    res = Result()
    solver, skind, site, step, flag = spec["solver"], spec["system"], spec["site"], spec["step"], spec["flag"]
    name = f"{solver}:{site}"
    feats = {"solver": solver, "site": site, "flag": flag}
    res.label(f"site:{name}", f"flag:{'on' if flag else 'off'}")

    # ---- solvers that cannot treat contacts -----------------------------------------------------
    if site == "contacts_not_supported":
        system = build(skind)
        raised = False
        with warnings.catch_warnings(record=True) as rec:
            warnings.simplefilter("always")
            try:
                with quiet():
                    s = dynbuild.make_solver(solver, system, NSTEPS * DT, DT, rtol=1e-6, atol=1e-8)
                    s.solve()
            except Exception:
                raised = True
        msgs = [str(w.message) for w in rec]
        res.ok()
        if not raised and not any(("contact" in m.lower() or "unilateral" in m.lower() or "nla_N" in m) for m in msgs):
            res.fail("unsupported_model_part_is_not_ignored", name, None, feats,
                     f"system with nla_N={system.nla_N} integrated without any error or warning about contacts")
        res.nontrivial = True
        return res

    # ---- consistency solve -------------------------------------------------------------------------
    if solver == "consistent_initial_conditions":
        raised = False
        try:
            build(skind, consistent_opts=SolverOptions(fixed_point_max_iter=1, fixed_point_atol=1e-14))
        except (AssertionError, RuntimeError):
            raised = True
        res.ok()
        if not raised:
            res.fail("failure_is_announced", name, None, feats, "fixed-point loop limited to 1 iteration, assembly silent")
        res.nontrivial = True
        return res

    system = build(skind)
    opts = SolverOptions(newton_atol=1e-10, newton_rtol=1e-10, fixed_point_atol=1e-10, fixed_point_rtol=1e-10,
                         fixed_point_max_iter=40 if "fixed_point" in site else 2000, newton_max_iter=30,
                         continue_with_unconverged=flag, numerical_jacobian_method=spec.get("num_jac", False))
    armed = Armed(step)
    state = {"solver": None, "count": 0}

    def current_step():
        s = state["solver"]
        if s is None:
            return -1
        if solver in ("Newton", "Riks"):
            return state["count"]
        return int(round((s.tn - system.t0) / DT))

    def fsolve_wrapper(fun, x0, *a, **k):
        st_ = current_step()
        n_in = armed.calls_in_step.get(st_, 0)
        armed.calls_in_step[st_] = n_in + 1
        if solver in ("Newton", "Riks"):
            state["count"] += 1
        want_call = 1 if site == "newton_in_fixed_point_loop" else 0
        if st_ == armed.step and n_in == want_call and armed.hit == 0:
            armed.hit += 1
            o = k.get("options", SolverOptions())
            k["options"] = dataclasses.replace(o, newton_max_iter=1, newton_atol=1e-14, newton_rtol=1e-14)
            x0 = np.asarray(x0, dtype=float) + 1e-2 * (1 + np.abs(x0))
        return real_fsolve(fun, x0, *a, **k)

    def sabotage_prox(real, pick):
        cnt = [0]

        def wrapped(*a, **k):
            out = real(*a, **k)
            if current_step() == armed.step:
                armed.hit += 1
                cnt[0] += 1
                sgn = 1.0 if cnt[0] % 2 else -1.0
                if isinstance(out, tuple):
                    out = tuple(o + sgn * 1e-2 * (1 + np.abs(o)) for o in out)
                else:
                    out = out + sgn * 1e-2 * (1 + np.abs(out))
            return out

        return wrapped

    def helper_wrapper(real, which):
        def wrapped(fun, x0, *a, **k):
            st_ = current_step()
            n_in = armed.calls_in_step.get((which, st_), 0)
            armed.calls_in_step[(which, st_)] = n_in + 1
            if st_ == armed.step and n_in == 0 and which == site:
                armed.hit += 1
                c = [0]

                def bad(x):
                    c[0] += 1
                    y = fun(x)
                    if spec.get("nan") and c[0] > 1:
                        return y + np.nan
                    return y + (1.0 if c[0] % 2 else -1.0) * 1e-2 * (1 + np.abs(y))

                k["max_iter"] = 20
                return real(bad, x0, *a, **k)
            return real(fun, x0, *a, **k)

        return wrapped

    patches = []

    def patch(mod, attr, new):
        patches.append((mod, attr, getattr(mod, attr)))
        setattr(mod, attr, new)

    raised, sol, exc = False, None, None
    with warnings.catch_warnings(record=True) as rec:
        warnings.simplefilter("always")
        try:
            with quiet():
                if solver in ("Newton", "Riks"):
                    patch(m_statics, "fsolve", fsolve_wrapper)
                    if solver == "Newton":
                        s = Newton(system, n_load_steps=4, options=opts)
                    else:
                        state["count"] = -1  # the solve in Riks.__init__ is call -1
                        s = Riks(system, la_arc0=0.05, la_arc_span=np.array([0.0, 1.0]), max_load_steps=200, options=opts)
                    state["solver"] = s
                    sol = s.solve()
                else:
                    if site.startswith("newton"):
                        patch(m_be if solver == "BackwardEuler" else m_rattle, "fsolve", fsolve_wrapper)
                    if solver == "DualStormerVerlet":
                        patch(m_dsv, "fixed_point_iteration", helper_wrapper(m_dsv.fixed_point_iteration, "fixed_point_midpoint"))
                        # the main loop uses the momentum variant when accelerated (default)
                        patch(m_dsv, "fixed_point_iteration_with_momentum",
                              helper_wrapper(m_dsv.fixed_point_iteration_with_momentum, "fixed_point_main"))
                    kw_ = {"accelerated": bool(spec.get("dsv_accelerated", True))} if solver == "DualStormerVerlet" else {}
                    s = dynbuild.make_solver(solver, system, NSTEPS * DT, DT, opts, **kw_)
                    state["solver"] = s
                    if site == "fixed_point" and solver in ("Moreau", "BackwardEuler"):
                        s.prox = sabotage_prox(s.prox, None)
                    if site == "fixed_point_stage1":
                        s.prox1 = sabotage_prox(s.prox1, None)
                    if site == "fixed_point_stage2":
                        s.prox2 = sabotage_prox(s.prox2, None)
                    sol = s.solve()
        except Exception as e:  # noqa
            raised, exc = True, e
        finally:
            for mod, attr, old in reversed(patches):
                setattr(mod, attr, old)
    msgs = [str(w.message) for w in rec]
    took_effect = armed.hit > 0
    res.nontrivial = took_effect
    if not took_effect:
        res.label("injection_without_effect")
        return res

    if raised:
        res.ok()
        # the error must be the announcement of the failed iteration, not a crash further down the road (a NaN iterate
        # that was accepted makes a later factorisation fail with an unrelated message)
        if isinstance(exc, (RuntimeError, AssertionError, ValueError)) and "converge" in str(exc).lower():
            res.label("raised" if not flag else "flag_on_but_raised")
        else:
            res.fail("failure_is_announced", name, None, feats, f"unexpected exception {type(exc).__name__}: {exc}")
        return res

    t = np.asarray(sol.t, dtype=float)
    if solver in ("Newton", "Riks"):
        full = len(t) >= (5 if solver == "Newton" else 2) and abs(t[-1] - 1.0) < 1e-9 if solver == "Newton" else t[-1] >= 1.0
        expected_stop = None
    else:
        full = len(t) == NSTEPS + 1
        expected_stop = system.t0 + armed.step * DT
    solver_msgs = [m for m in msgs if "fsolve is not converged" not in m and "approx_fprime" not in m]
    if flag:
        res.ok()
        if not solver_msgs and not any("not converged" in m for m in msgs):
            res.fail("continue_with_unconverged_warns", name, None, feats, f"no warning; warnings={msgs[:3]}")
        res.ok()
        if not full:
            res.fail("continue_with_unconverged_reaches_the_end", name, None, feats, f"len(t)={len(t)}")
        res.label("continued_with_warning")
        return res
    # flag off and the call returned
    res.ok()
    if full:
        res.fail("failure_is_announced", name, None, feats,
                 "the armed site failed, nothing was raised and the full-length solution was returned")
        return res
    if solver == "Newton":
        # load steps 0, 1/4, ..., 1; the armed one failed, so exactly the ones before it may be returned
        res.ok()
        if len(t) != armed.step:
            res.fail("returns_only_converged_steps", name, float(len(t) - armed.step), feats,
                     f"{len(t)} load steps returned, {armed.step} converged before the failure")
    if expected_stop is not None:
        res.ok()
        if len(t) == 0 or abs(t[-1] - expected_stop) > 1e-9:
            res.fail("returns_only_converged_steps", name, None, feats,
                     f"last instant {t[-1] if len(t) else None!r}, last converged instant {expected_stop!r}")
    res.ok()
    if not solver_msgs:
        res.fail("truncated_return_warns", name, None, feats,
                 f"solution truncated after {len(t)} instants without a warning from the solver; warnings={msgs[:2]}")
    elif len(t):
        named = any(any(abs(x - t[-1]) <= 1e-9 * (1 + abs(t[-1])) for x in _floats_in(m)) for m in solver_msgs)
        if not named:
            res.fail("warning_names_the_stop_time", name, None, feats, f"stop time {t[-1]!r} not in {solver_msgs[:2]}")
    res.label("truncated_with_warning")
    return res
