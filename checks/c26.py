"""C26 Memoised kinematic evaluations are transparent."""

import numpy as np
from hypothesis import strategies as st

from harness import gen, build, sysbuild, rodbuild
from harness.runner import Result

PROPERTY = "C26"
LEVEL = "exploration"
RULE = (
    "history = object kind in {RigidBody, Cosserat rod (Quaternion / SE3 / R12 interpolation), Sphere2Sphere contact "
    "inside an assembled two-body system, Mesh1D} + pools of 3 times, 3 coordinate vectors, 3 velocity vectors, 3-4 "
    "cross-section parameters (incl. element boundaries) and 2 offsets + up to 40 operations: evaluate a memoised "
    "method (or a routine built on one) with arguments from the pools, or change state: step_callback, "
    "set_reference_strains, re-assemble, overwrite a pool array in place. Reference: the same call on a twin object "
    "that receives the same state changes and whose caches are cleared before every evaluation. Non-trivial: a "
    "repeated evaluation (potential cache hit) that follows a state change."
)
ASSUMPTIONS = [
    "results must be identical (np.array_equal) between the memoising object and the cache-cleared twin",
    "caches are found as attributes that are cachetools.Cache instances (any future cache is picked up automatically)",
    "returned arrays are never modified by the harness (a caller that mutates a returned array is outside the property)",
]
CASES = {"quick": 400, "thorough": 10000}
SHARDS = {"quick": 8, "thorough": 16}
TECHNIQUE = "model-based generated operation histories; differential oracle against a cache-cleared twin object"
LEVEL_TEXT = (
    "Generated interleavings of evaluations and state changes over small argument pools (so hits, evictions and "
    "stale entries all occur) with a differential oracle: a twin whose caches are emptied before every call."
)
LEVEL_NOTE = "trusted: the un-memoised code path of the twin"


@st.composite
def _history(draw):
    kind = draw(st.sampled_from(["rigid", "rod", "rod", "s2s", "s2s", "mesh"]))
    spec = {"kind": kind}
    if kind == "rigid":
        spec["qs"] = [[draw(gen.f(-2, 2)) for _ in range(3)] + draw(gen.near_unit_quat()) for _ in range(3)]
        spec["us"] = [[draw(gen.f(-2, 2)) for _ in range(6)] for _ in range(3)]
        if draw(st.booleans()):
            # coordinate vectors that differ in one component only, by values whose Python hashes coincide
            # (hash(-1.0) == hash(-2.0)): a cache keyed on hash(args) instead of the arguments confuses them
            spec["qs"][1] = list(spec["qs"][0]); spec["qs"][2] = list(spec["qs"][0])
            spec["qs"][1][2], spec["qs"][2][2] = -1.0, -2.0
        methods = ["A_IB", "A_IB_q", "r_OP", "r_OP_q", "v_P", "v_P_q", "J_P", "J_P_q", "a_P", "after_inplace_update"]
        changers = ["step_callback", "overwrite_q"]
    elif kind == "rod":
        rs = draw(rodbuild.rod_spec(max_nel=2, allow_constraints=False))
        rs["mixed"] = False
        spec["rod"] = rs
        spec["perts"] = [{"dr": [draw(gen.f(-1, 1)) for _ in range(5)], "dp": [draw(gen.f(-1, 1)) for _ in range(4)],
                          "sc": [draw(gen.f(0.8, 1.25))]} for _ in range(3)]
        spec["useed"] = [draw(gen.f(-2, 2)) for _ in range(7)]
        methods = ["r_OP", "A_IB", "r_OP_q", "A_IB_q", "v_P", "J_P", "E_pot", "h", "h_q"]
        if rs["interp"] in ("R12", "SE3"):
            # these interpolations support complex-step differentiation (numerical_jacobian_method="cs")
            methods += ["r_OP_complex_step"]
        changers = ["step_callback", "set_reference_strains", "overwrite_q"]
    elif kind == "s2s":
        # first subsystem: a rigid body or a Frame with prescribed (time-dependent) motion
        spec["b1"] = draw(st.one_of(build.rigid_body(unit=True), build.rigid_body(unit=True), build.frame_body(moving=True, rotating=False)))
        spec["b2"] = draw(st.one_of(build.rigid_body(unit=True), build.point_mass()))
        if spec["b1"]["kind"] == "frame":
            spec["b1"]["motion"]["c0"] = [-1.0, 0.0, 0.0]
            for k in ("c1", "c2", "a"):
                spec["b1"]["motion"][k] = (0.3 * np.array(spec["b1"]["motion"][k])).tolist()
        spec["b1"]["r"] = [-1.0, 0.0, 0.0]
        spec["b2"]["r"] = [1.0, 0.3, -0.2]
        spec["dqs"] = [[draw(gen.f(-0.4, 0.4)) for _ in range(14)] for _ in range(3)]
        spec["us"] = [[draw(gen.f(-2, 2)) for _ in range(12)] for _ in range(3)]
        spec["mu"] = draw(gen.f(0.1, 1.0))
        methods = ["g_N", "gamma_F", "W_F", "W_N", "gamma_F_q", "Wla_F_q", "gamma_F_dot"]
        changers = ["step_callback", "step_callback", "reassemble"]
    else:
        spec["degree"] = draw(st.integers(1, 3))
        spec["nel"] = draw(st.integers(1, 3))
        methods = ["eval_basis", "eval_basis_el"]
        changers = []
    spec["ts"] = [0.0, draw(gen.f(0.1, 1.0)), draw(gen.f(1.0, 2.0))]
    spec["xis"] = [0.0, 1.0, 0.5, draw(gen.f(0.0, 1.0))]
    spec["Bs"] = [[0.0, 0.0, 0.0], draw(gen.vec3(-2, 0, allow_zero=False)), [0.0, 0.0, -1.0], [0.0, 0.0, -2.0]]
    ops = []
    for _ in range(draw(st.integers(2, 40))):
        if changers and draw(st.integers(0, 4)) == 0:
            ops.append({"op": draw(st.sampled_from(changers)), "t": draw(st.integers(0, 2)), "q": draw(st.integers(0, 2)),
                        "u": draw(st.integers(0, 2)), "src": draw(st.integers(0, 2))})
        else:
            ops.append({"op": draw(st.sampled_from(methods)), "t": draw(st.integers(0, 2)), "q": draw(st.integers(0, 2)),
                        "u": draw(st.integers(0, 2)), "xi": draw(st.integers(0, 3)), "B": draw(st.integers(0, 3)),
                        "el": draw(st.integers(0, 2))})
    spec["ops"] = ops
    return spec


def strategy(tier):
    return _history()


def _caches(obj):
    from cachetools import Cache

    out = []
    for name, val in vars(obj).items():
        if isinstance(val, Cache):
            out.append(val)
    return out


def _clear(objs):
    for o in objs:
        for c in _caches(o):
            c.clear()


def _same(a, b):
    if isinstance(a, tuple):
        return isinstance(b, tuple) and len(a) == len(b) and all(_same(x, y) for x, y in zip(a, b))
    a = a.toarray() if hasattr(a, "toarray") else np.asarray(a)
    b = b.toarray() if hasattr(b, "toarray") else np.asarray(b)
    # NaN (e.g. the SE(3) interpolation at a denormal xi, where T_SO3_psi underflows) counts as equal to NaN: the
    # property is about memoisation, not about the value
    return a.shape == b.shape and np.array_equal(a, b, equal_nan=True)


def check(spec):
    res = Result()
    kind = spec["kind"]
    feats = {"kind": kind}
    ts = spec["ts"]
    seen = set()
    changed_since = False
    hit_after_change = False

    def make():
        """Returns (evaluate(op) -> value, change(op), cached objects, site)."""
        if kind == "rigid":
            from cardillo.discrete import RigidBody

            body = RigidBody(1.3, np.diag([0.2, 0.3, 0.5]), name="rb")
            qs = [np.array(q, dtype=float) for q in spec["qs"]]
            us = [np.array(u, dtype=float) for u in spec["us"]]
            Bs = [np.array(b, dtype=float) for b in spec["Bs"]]

            def ev(op):
                t, q, u, B = ts[op["t"]], qs[op["q"]], us[op["u"]], Bs[op["B"] % len(Bs)]
                m = op["op"]
                if m == "after_inplace_update":
                    # the caller advances its state array in place between two evaluations; the second one is made with
                    # a copy of the old state. Centre of mass: position q[:3] and velocity u[:3] are the exact answers.
                    z3 = np.zeros(3)
                    q_old, u_old = q.copy(), u.copy()
                    body.r_OP(t, q, None, z3)
                    body.v_P(t, q, u, None, z3)
                    q[:3] += 0.37
                    u[:3] -= 0.21
                    out = np.concatenate([np.asarray(body.r_OP(t, q_old, None, z3), dtype=float) - q_old[:3],
                                          np.asarray(body.v_P(t, q_old, u_old, None, z3), dtype=float) - u_old[:3]])
                    q[:3] -= 0.37
                    u[:3] += 0.21
                    return out
                if m in ("A_IB", "A_IB_q"):
                    return getattr(body, m)(t, q)
                if m in ("r_OP", "r_OP_q", "J_P", "J_P_q"):
                    return getattr(body, m)(t, q, None, B)
                if m in ("v_P", "v_P_q"):
                    return getattr(body, m)(t, q, u, None, B)
                return body.a_P(t, q, u, us[(op["u"] + 1) % 3], None, B)

            def ch(op):
                if op["op"] == "step_callback":
                    body.step_callback(ts[op["t"]], qs[op["q"]], us[op["u"]])  # normalises the pool array in place
                else:
                    # load another pool state into this array in place: exactly (when the velocity index is even) or scaled
                    qs[op["q"]][:] = np.array(spec["qs"][op["src"]], dtype=float) * (1.0 if op["u"] % 2 == 0 else 1.0 + 0.01 * op["t"])

            return ev, ch, [body], "RigidBody"
        if kind == "rod":
            rs = spec["rod"]
            system = sysbuild.new_system(0.0)
            rod, Q = rodbuild.make_rod(rs)
            system.add(rod)
            sysbuild.assemble(system)
            qs = [rodbuild.perturb(rs, Q, p["dr"], p["dp"], p["sc"]) for p in spec["perts"]]
            n = len(qs[0])
            us = [np.array((spec["useed"] * (system.nu // 7 + 1))[: system.nu], dtype=float) * (i + 1) for i in range(3)]
            Bs = [np.array(b, dtype=float) for b in spec["Bs"]]
            base = [q.copy() for q in qs]

            def ev(op):
                t, q, u, B, xi = ts[op["t"]], qs[op["q"]], us[op["u"]], Bs[op["B"] % len(Bs)], float(spec["xis"][op["xi"]])
                m = op["op"]
                if m == "E_pot":
                    return np.array([system.E_pot(t, q)])
                if m == "h":
                    return system.h(t, q, u)
                if m == "h_q":
                    return system.h_q(t, q, u)
                qe, ue = q[rod.local_qDOF_P(xi)], u[rod.local_uDOF_P(xi)]
                if m == "r_OP_complex_step":
                    # the real evaluation first, then the complex-perturbed one at the same real part
                    rod.r_OP(t, qe, xi, B)
                    if op.get("_twin"):
                        _clear([rod, rod.mesh_r, rod.mesh_p])
                    k_ = (op["q"] + op["t"]) % len(qe)
                    qc = qe.astype(complex)
                    qc[k_] += 1e-20j
                    return np.imag(np.asarray(rod.r_OP(t, qc, xi, B))) / 1e-20
                if m in ("A_IB", "A_IB_q"):
                    return getattr(rod, m)(t, qe, xi)
                if m in ("r_OP", "r_OP_q", "J_P"):
                    return getattr(rod, m)(t, qe, xi, B)
                return rod.v_P(t, qe, ue, xi, B)

            def ch(op):
                if op["op"] == "step_callback":
                    system.step_callback(ts[op["t"]], qs[op["q"]], us[op["u"]])
                elif op["op"] == "set_reference_strains":
                    rod.set_reference_strains(base[op["src"]].copy())
                else:
                    qs[op["q"]][:] = base[op["src"]] * 1.0 + 0.01 * op["t"]

            return ev, ch, [rod, rod.mesh_r, rod.mesh_p], f"rod[{rs['interp']}]"
        if kind == "s2s":
            from cardillo.contacts import Sphere2Sphere

            system = sysbuild.new_system(0.0)
            b1 = build.make_body(spec["b1"], name="b1")
            b2 = build.make_body(spec["b2"], name="b2")
            c = Sphere2Sphere(b1, b2, 0.3, 0.4, spec["mu"], e_N=0.5, name="s2s")
            system.add(b1, b2, c)
            sysbuild.assemble(system)
            nq, nu = system.nq, system.nu
            qs = [system.q0 + np.array(d[:nq], dtype=float) for d in spec["dqs"]]
            us = [np.array(u[:nu], dtype=float) for u in spec["us"]]
            la = np.array([0.7, -0.4])

            def ev(op):
                t, q, u = ts[op["t"]], qs[op["q"]], us[op["u"]]
                m = op["op"]
                if m == "g_N":
                    return system.g_N(t, q)
                if m == "gamma_F":
                    return system.gamma_F(t, q, u)
                if m == "W_F":
                    return system.W_F(t, q)
                if m == "W_N":
                    return system.W_N(t, q)
                if m == "gamma_F_q":
                    return system.gamma_F_q(t, q, u)
                if m == "Wla_F_q":
                    return system.Wla_F_q(t, q, la)
                return system.gamma_F_dot(t, q, u, us[(op["u"] + 1) % 3])

            def ch(op):
                if op["op"] == "step_callback":
                    system.step_callback(ts[op["t"]], qs[op["q"]].copy(), us[op["u"]].copy())
                else:
                    sysbuild.assemble(system)

            return ev, ch, [c, b1, b2], "Sphere2Sphere"
        from cardillo.rods.discretization.lagrange import LagrangeKnotVector
        from cardillo.rods.discretization.mesh1D import Mesh1D

        kv = LagrangeKnotVector(spec["degree"], spec["nel"])
        mesh = Mesh1D(kv, spec["degree"] + 1, dim_q=3, derivative_order=1, basis="Lagrange", quadrature="Gauss")

        def ev(op):
            xi = float(spec["xis"][op["xi"]])
            if op["op"] == "eval_basis":
                return mesh.eval_basis(xi)
            el = min(op["el"], spec["nel"] - 1)
            a, b = kv.element_interval(el)
            xi = a + xi * (b - a)
            return mesh.eval_basis(xi, el)

        return ev, (lambda op: None), [mesh], "Mesh1D"

    ev_a, ch_a, objs_a, site = make()
    ev_b, ch_b, objs_b, _ = make()
    for i, op in enumerate(spec["ops"]):
        if op["op"] in ("step_callback", "set_reference_strains", "overwrite_q", "reassemble"):
            ch_a(op)
            ch_b(op)
            changed_since = True
            res.label("changer:" + op["op"])
            continue
        key = (op["op"], op["t"], op["q"], op.get("xi") if kind in ("rod", "mesh") else None)
        if key in seen and changed_since:
            hit_after_change = True
        seen.add(key)
        va = ev_a(op)
        _clear(objs_b)
        vb = ev_b(dict(op, _twin=True))
        res.ok()
        if op["op"] == "after_inplace_update" and np.any(np.abs(np.asarray(va)) > 1e-15):
            res.fail("memoised_equals_unmemoised", f"{site}.r_OP/v_P(state array updated in place)", float(np.max(np.abs(va))), feats,
                     f"operation {i}: the value returned for the old state changed when the caller's array was advanced")
            return res
        if not _same(va, vb):
            try:
                mag = float(np.max(np.abs(np.asarray(sysbuild.dense(va), dtype=float) - np.asarray(sysbuild.dense(vb), dtype=float))))
            except Exception:
                mag = None
            res.fail("memoised_equals_unmemoised", f"{site}.{op['op']}", mag, feats,
                     f"operation {i} ({op['op']}) after {[o['op'] for o in spec['ops'][max(0, i - 3):i]]}")
            return res
    res.nontrivial = hit_after_change
    res.label(site)
    return res
