"""C16 Consistent initial conditions solve the initial equations of motion."""

import numpy as np
from hypothesis import strategies as st

from harness import gen, build, sysbuild, rodbuild
from harness.runner import Result, quiet

PROPERTY = "C16"
LEVEL = "exploration"
RULE = (
    "case kinds. chain: origin -joint-> body1 [-joint-> body2] with joints from {Revolute, Spherical, "
    "RigidConnection, Prismatic, Cylindrical}, gravity, an optional spring / Kelvin-Voigt / Maxwell element (force "
    "or compliance form) between the bodies or to the origin, an optional Motor / PD / PID actuator on a revolute "
    "joint, initial velocities = a rigid motion of the whole mechanism that the first joint permits (built, not "
    "filtered). contact: 1-2 spheres (rigid bodies) on / above a plane with friction 0..0.8, each open, resting or "
    "sliding (with spin), gravity, optional spring to the origin. reject: the same systems with one deliberate "
    "inconsistency (velocity violating a joint, sphere pushed into penetration, closed contact approaching, rod with "
    "an internal constraint stretched away from its reference). Non-trivial: at least one constraint and at least "
    "one of {actuator, compliance element, closed contact}."
)
ASSUMPTIONS = [
    "assembly with fixed_point_atol=1e-10; residuals are judged at 1e-6 * (1 + force scale)",
    "contact conditions on acceleration level for closed persistent contacts (g_N = g_N_dot = 0): la_N >= 0, "
    "g_N_ddot >= 0, la_N * g_N_ddot = 0; Coulomb: |la_F| <= mu la_N, stick => gamma_F_dot = 0 unless on the cone, "
    "slip => la_F = -mu la_N gamma_F/|gamma_F|; evaluated with the system's own g_N_ddot / gamma_F_dot (C06's subject)",
    "rejection = System.assemble raises (AssertionError) for the inconsistent variant",
]
CASES = {"quick": 400, "thorough": 15000}
SHARDS = {"quick": 8, "thorough": 16}
TECHNIQUE = "generated mechanisms/contact scenes with consistent states built by construction; validity predicate (equations of motion, acceleration-level constraints, Signorini/Coulomb) recomputed through the System API; injected inconsistencies must be rejected"
LEVEL_TEXT = (
    "Generated-input search with a validity predicate recomputed independently of the solve inside assembly (the "
    "harness re-evaluates every term of the equations of motion through the System API) and with deliberately "
    "inconsistent variants that must be rejected. Sampling, not proof."
)
LEVEL_NOTE = "trusted: System evaluation methods (C04-C08, C14); numpy"

G = 9.81


@st.composite
def _chain(draw):
    nb = draw(st.integers(1, 2))
    bodies = []
    for i in range(nb):
        b = draw(build.rigid_body(unit=True))
        b["r"] = [1.0 + 1.5 * i + draw(gen.f(-0.2, 0.2)), draw(gen.f(-0.3, 0.3)), draw(gen.f(-0.3, 0.3))]
        bodies.append(b)
    j1 = draw(st.sampled_from(["Revolute", "Revolute", "Revolute", "Spherical", "Prismatic", "Cylindrical"]))
    joints = [{"type": j1, "axis": draw(st.integers(0, 2)), "r_OJ0": [draw(gen.f(-0.3, 0.3)) for _ in range(3)],
               "psi_J": draw(gen.rotvec(min_exp=-2, near_max=False)), "angle0": draw(gen.f(-1, 1))}]
    if nb == 2:
        joints.append({"type": draw(st.sampled_from(["Revolute", "Spherical", "RigidConnection", "Prismatic"])),
                       "axis": draw(st.integers(0, 2)),
                       "r_OJ0": [1.7 + draw(gen.f(-0.2, 0.2)), draw(gen.f(-0.2, 0.2)), draw(gen.f(-0.2, 0.2))],
                       "psi_J": draw(gen.rotvec(min_exp=-2, near_max=False)), "angle0": 0.0})
    spec = {"kind": "chain", "bodies": bodies, "joints": joints, "rate": draw(gen.f(-2, 2)),
            "gravity": [draw(gen.f(-3, 3)), draw(gen.f(-3, 3)), -G]}
    if draw(st.booleans()):
        spec["law"] = {"type": draw(st.sampled_from(["Spring", "KelvinVoigt", "Maxwell"])), "k": draw(gen.f(1, 50)),
                       "d": draw(gen.f(0.1, 5)), "compliance": draw(st.booleans()), "l_ref": draw(gen.f(0.3, 2.5)),
                       "to_origin": nb == 1 or draw(st.booleans()), "B2": draw(gen.vec3(-2, -0.5))}
    if joints[0]["type"] == "Revolute" and draw(st.integers(0, 2)) > 0:
        spec["actuator"] = {"type": draw(st.sampled_from(["Motor", "PD", "PID"])), "kp": draw(gen.f(1, 20)),
                            "ki": draw(gen.f(0.1, 3)), "kd": draw(gen.f(0.1, 3)), "w": 1.0,
                            "amp": [draw(gen.f(0.5, 3)) * draw(st.sampled_from([1, -1])), draw(gen.f(-1, 1))]}
    spec["reject"] = draw(st.sampled_from([None, None, None, "velocity"]))
    return spec


@st.composite
def _contact(draw):
    ns = draw(st.sampled_from([1, 2, 2, 3]))
    # a third of the scenes with several spheres list a frictional contact that is not persistent (open, moving
    # sideways) before frictional persistent ones: the active friction set is then not a leading block of the list
    mixed_order = ns > 1 and draw(st.integers(0, 2)) == 0
    spheres = []
    for i in range(ns):
        if mixed_order:
            state = "open" if i == 0 else draw(st.sampled_from(["resting", "sliding"]))
        else:
            state = draw(st.sampled_from(["open", "resting", "resting", "sliding", "sliding"]))
        r = draw(gen.f(0.1, 0.5))
        b = draw(build.rigid_body(unit=True))
        b["theta"] = (np.eye(3) * 0.4 * b["mass"] * r * r).tolist()
        z = r + (draw(gen.f(0.05, 1.0)) if state == "open" else 0.0)
        b["r"] = [2.0 * i + draw(gen.f(-0.3, 0.3)), draw(gen.f(-0.3, 0.3)), z]
        if state == "open":
            b["v"] = [draw(gen.f(-1, 1)) for _ in range(3)]
        elif state == "resting":
            b["v"] = [0.0, 0.0, 0.0]
            b["omega"] = [0.0, 0.0, draw(gen.f(-1, 1))] if draw(st.booleans()) else [0.0] * 3
            # spin about the vertical in body coordinates requires the body frame: use identity orientation
            b["P"] = [1.0, 0.0, 0.0, 0.0]
        else:
            b["v"] = [draw(gen.f(0.3, 2.0)) * draw(st.sampled_from([1, -1])), draw(gen.f(-1, 1)), 0.0]
            b["omega"] = [draw(gen.f(-2, 2)) for _ in range(3)] if draw(st.booleans()) else [0.0] * 3
        spheres.append({"body": b, "radius": r, "state": state,
                        "mu": draw(st.sampled_from([0.2, 0.5, 0.8] if mixed_order else [0.0, 0.2, 0.5, 0.8])),
                        "e_N": draw(gen.f(0, 1))})
    spec = {"kind": "contact", "spheres": spheres, "gravity": [draw(gen.f(-2, 2)), draw(gen.f(-2, 2)), -G],
            "spring": draw(st.booleans()), "k": draw(gen.f(1, 30))}
    spec["reject"] = draw(st.sampled_from([None, None, None, "penetration", "approaching"]))
    # the whole scene (plane, spheres, gravity) is placed by a rotation up to pi: the plane normal points anywhere
    spec["placement"] = draw(st.one_of(
        st.just([0.0, 0.0, 0.0]), gen.rotvec(min_exp=-1, near_max=False),
        # ceiling, walls, and an incline whose normal has only non-positive components
        st.sampled_from([[3.141592653589793, 0.0, 0.0], [0.0, -1.5707963267948966, 0.0], [1.5707963267948966, 0.0, 0.0],
                         [2.2, 0.6, 0.0], [2.6, -0.9, 0.3]])))
    if not mixed_order and draw(st.integers(0, 3)) == 0:
        # the plane tilts in time about an in-plane axis (theta(0) = 0); the spheres move with it. Frictionless only: the
        # slip kinematics of Sphere2Plane are stated for planes of constant orientation (C06)
        a = draw(gen.f(0.0, 6.28))
        spec["plane_spin"] = {"axis": [float(np.cos(a)), float(np.sin(a)), 0.0], "b1": draw(gen.f(-1.5, 1.5)),
                              "b2": draw(gen.f(-0.5, 0.5)), "w2": draw(gen.f(0.5, 3.0))}
        for sph in spheres:
            sph["mu"] = 0.0
    return spec


@st.composite
def _arm(draw):
    """A bar hinged to the origin by a revolute joint whose tip (a sphere) rests on the ground, with a motor on the
    joint and optional friction: bilateral constraint, actuator and persistent contact act on one body."""
    return {"kind": "arm", "L": draw(gen.f(0.6, 2.0)), "mass": draw(gen.f(0.5, 4.0)), "radius": draw(gen.f(0.05, 0.3)),
            "T": draw(gen.f(-6.0, 6.0)), "mu": draw(st.sampled_from([0.0, 0.3, 0.8])), "drive": draw(st.sampled_from(["Motor", "PD", None])),
            "gx": draw(gen.f(-2.0, 2.0)), "reject": None}


@st.composite
def _skate(draw):
    """A rigid body with a velocity-level (nonholonomic) constraint supplied by the harness: no velocity along the
    body-fixed y direction (knife edge), moving along its x direction while turning, pushed sideways by gravity."""
    b = draw(build.rigid_body(unit=True))
    return {"kind": "skate", "body": b, "speed": draw(gen.f(-2.0, 2.0)), "spin": [draw(gen.f(-2, 2)) for _ in range(3)],
            "gravity": [draw(gen.f(-5, 5)), draw(gen.f(-5, 5)), draw(gen.f(-9.81, 0.0))], "reject": None}


class KnifeEdge:
    """gamma = (A_IB e_y) . v_C = 0 on a RigidBody (harness-side contribution, interface as in examples/rolling_disc)."""

    def __init__(self, body, name="knife_edge"):
        self.subsystem = body
        self.name = name
        self.nla_gamma = 1
        self.la_gamma0 = np.zeros(1)

    def assembler_callback(self):
        self.qDOF = self.subsystem.qDOF
        self.uDOF = self.subsystem.uDOF

    def _e(self, t, q):
        return self.subsystem.A_IB(t, q)[:, 1]

    def gamma(self, t, q, u):
        return np.array([self._e(t, q) @ u[:3]])

    def gamma_dot(self, t, q, u, u_dot):
        A = self.subsystem.A_IB(t, q)
        e_dot = A @ np.cross(u[3:], np.array([0.0, 1.0, 0.0]))
        return np.array([e_dot @ u[:3] + A[:, 1] @ u_dot[:3]])

    def gamma_u(self, t, q):
        out = np.zeros((1, 6))
        out[0, :3] = self._e(t, q)
        return out

    def W_gamma(self, t, q):
        return self.gamma_u(t, q).T

    def gamma_q(self, t, q, u):
        from cardillo.math.approx_fprime import approx_fprime
        return approx_fprime(q, lambda q_: self.gamma(t, q_, u))

    def gamma_dot_q(self, t, q, u, u_dot):
        raise NotImplementedError

    def Wla_gamma_q(self, t, q, la_gamma):
        from cardillo.math.approx_fprime import approx_fprime
        return approx_fprime(q, lambda q_: self.gamma_u(t, q_).T @ la_gamma)


@st.composite
def _rod_reject(draw):
    rs = draw(rodbuild.rod_spec(max_nel=2))
    rs["constraints"] = draw(st.sampled_from([[0], [0, 1, 2], [1, 2], [0, 1, 2, 3, 4, 5]]))
    rs["material"] = "Simo1986"
    return {"kind": "rod", "rod": rs, "stretch": draw(gen.f(0.05, 0.3)), "reject": draw(st.sampled_from([None, "stretched"]))}


def strategy(tier):
    return st.one_of(_chain(), _chain(), _contact(), _contact(), _rod_reject(), _arm(), _skate())


# --------------------------------------------------------------------------------------
def _rigid_motion_velocity(bodies, joint, A_IJ, r_J, rate):
    """velocities of a rigid motion of the whole mechanism permitted by the first joint"""
    t = joint["type"]
    e = A_IJ[:, joint.get("axis", 0)]
    for b in bodies:
        R = gen.quat_to_R(np.array(b["P"], dtype=float))
        r = np.array(b["r"], dtype=float)
        if t in ("Revolute", "Spherical"):
            w = rate * (e if t == "Revolute" else np.array([0.3, -0.5, 0.8]))
            b["v"] = np.cross(w, r - r_J).tolist()
            b["omega"] = (R.T @ w).tolist()
        elif t in ("Prismatic", "Cylindrical"):
            b["v"] = (rate * e).tolist()
            b["omega"] = [0.0, 0.0, 0.0]
        else:
            b["v"] = [0.0] * 3
            b["omega"] = [0.0] * 3


def build_system(spec):
    from cardillo.contacts import Sphere2Plane
    from cardillo.discrete import Frame
    from cardillo.forces import Force
    from cardillo.solver import SolverOptions

    system = sysbuild.new_system(0.0)
    kind = spec["kind"]
    info = {"has_constraint": False, "has_special": False}
    if kind == "chain":
        bodies_spec = [dict(b) for b in spec["bodies"]]
        j0 = spec["joints"][0]
        A_IJ = gen._exp(np.array(j0["psi_J"], dtype=float))
        _rigid_motion_velocity(bodies_spec, j0, A_IJ, np.array(j0["r_OJ0"], dtype=float), spec["rate"])
        if spec["reject"] == "velocity":
            b = bodies_spec[-1]
            b["v"] = (np.array(b["v"]) + np.array([0.4, -0.3, 0.5])).tolist()
        bodies = [build.make_body(b, name=f"body{i}") for i, b in enumerate(bodies_spec)]
        system.add(*bodies)
        prev = system.origin
        joints = []
        for i, js in enumerate(spec["joints"]):
            j = sysbuild.make_joint(js, prev, bodies[i])
            j.name = f"joint{i}"
            system.add(j)
            joints.append(j)
            prev = bodies[i]
        info["has_constraint"] = True
        for i, b in enumerate(bodies):
            system.add(Force(np.array(spec["gravity"]) * spec["bodies"][i]["mass"], b, name=f"gravity{i}"))
        if "law" in spec:
            ls = spec["law"]
            s1 = system.origin if ls["to_origin"] else bodies[0]
            tpi = sysbuild.make_tpi({"B1": [0.0] * 3, "B2": ls["B2"], "name": "tpi"}, s1, bodies[-1])
            system.add(tpi)
            system.add(sysbuild.make_force_law(ls, tpi))
            info["has_special"] = info["has_special"] or (ls["compliance"] and ls["type"] != "Maxwell")
        if "actuator" in spec:
            system.add(sysbuild.make_actuator(spec["actuator"], joints[0]))
            info["has_special"] = True
    elif kind == "skate":
        bs = dict(spec["body"])
        A = gen.quat_to_R(np.array(bs["P"], dtype=float))
        bs["v"] = (spec["speed"] * A[:, 0]).tolist()  # along the blade: gamma = 0
        bs["omega"] = list(spec["spin"])
        b = build.make_body(bs, name="skate")
        system.add(b)
        system.add(Force(np.array(spec["gravity"]) * bs["mass"], b, name="gravity"))
        system.add(KnifeEdge(b))
        info["has_constraint"] = True
        info["has_special"] = True
    elif kind == "arm":
        from cardillo.discrete import RigidBody

        L, m, r = spec["L"], spec["mass"], spec["radius"]
        bar = RigidBody(m, np.diag([0.01 * m, m * L * L / 12, m * L * L / 12]), q0=np.array([L / 2, 0.0, r, 1.0, 0, 0, 0]), name="bar")
        ground = Frame(name="ground")
        system.add(bar, ground)
        hinge = sysbuild.make_joint({"type": "Revolute", "axis": 1, "r_OJ0": [0.0, 0.0, r], "psi_J": None}, system.origin, bar)
        system.add(hinge)
        system.add(Force(np.array([spec["gx"], 0.0, -G]) * m, bar, name="gravity"))
        system.add(Sphere2Plane(ground, bar, mu=spec["mu"], r=r, B_r_CP=np.array([L / 2, 0.0, 0.0]), e_N=0.0, name="tip_contact"))
        if spec["drive"]:
            system.add(sysbuild.make_actuator({"type": spec["drive"], "amp": [spec["T"], 0.3], "w": 1.0, "kp": 5.0, "kd": 0.5}, hinge))
        info["has_constraint"] = True
        info["has_special"] = True
    elif kind == "contact":
        psiR = np.array(spec.get("placement", [0.0, 0.0, 0.0]), dtype=float)
        R0 = gen._exp(psiR)
        aR = float(np.linalg.norm(psiR))
        qR = np.concatenate([[np.cos(aR / 2)], np.sin(aR / 2) * psiR / aR]) if aR > 0 else np.array([1.0, 0, 0, 0])
        spin = spec.get("plane_spin")
        motion = {"c0": [0.0, 0.0, 0.0], "psi0": psiR.tolist()}
        om_pl = np.zeros(3)  # angular velocity of the plane at t0 in plane coordinates
        if spin:
            motion.update(axis=spin["axis"], b1=spin["b1"], b2=spin["b2"], w2=spin["w2"])
            om_pl = np.array(spin["axis"]) * (spin["b1"] + spin["b2"] * spin["w2"])
        ground = build.make_frame(motion, name="ground") if (spin or aR > 0) else Frame(name="ground")
        system.add(ground)
        grav = R0 @ np.array(spec["gravity"], dtype=float)
        for i, s in enumerate(spec["spheres"]):
            bs = dict(s["body"])
            if spec["reject"] == "penetration" and i == 0:
                bs["r"] = [bs["r"][0], bs["r"][1], s["radius"] - 0.05]
            if spec["reject"] == "approaching" and i == 0:
                bs["r"] = [bs["r"][0], bs["r"][1], s["radius"]]
                bs["v"] = [bs["v"][0], bs["v"][1], -0.5]
            # the sphere moves with the tilting plane, then the scene is placed
            r_pl, v_pl = np.array(bs["r"], dtype=float), np.array(bs["v"], dtype=float)
            P = np.array(bs["P"], dtype=float)
            v_pl = v_pl + np.cross(om_pl, r_pl)
            bs["omega"] = (np.array(bs.get("omega", [0.0] * 3), dtype=float) + gen.quat_to_R(P).T @ om_pl).tolist()
            bs["r"], bs["v"] = (R0 @ r_pl).tolist(), (R0 @ v_pl).tolist()
            bs["P"] = np.array([qR[0] * P[0] - qR[1:] @ P[1:], *(qR[0] * P[1:] + P[0] * qR[1:] + np.cross(qR[1:], P[1:]))]).tolist()
            b = build.make_body(bs, name=f"sphere{i}")
            system.add(b)
            system.add(Force(grav * bs["mass"], b, name=f"gravity{i}"))
            system.add(Sphere2Plane(ground, b, mu=s["mu"], r=s["radius"], e_N=s["e_N"], name=f"contact{i}"))
            if s["state"] != "open":
                info["has_special"] = True
            if spec["spring"] and i == 0:
                tpi = sysbuild.make_tpi({"B1": [0.0, 0.0, 3.0], "B2": [0.0] * 3, "name": "tpi"}, system.origin, b)
                system.add(tpi)
                system.add(sysbuild.make_force_law({"type": "Spring", "k": spec["k"], "l_ref": 1.0, "compliance": True}, tpi))
        info["has_constraint"] = True
    else:
        rs = spec["rod"]
        rod, Q = rodbuild.make_rod(rs)
        if spec["reject"] == "stretched":
            n = rodbuild.nnodes(rs)
            q0 = Q.copy()
            r = q0[: 3 * n].reshape(3, n)
            c = r[:, :1]
            A = np.eye(3) + spec["stretch"] * np.array([[1.0, 0.3, 0.0], [0.0, 0.5, 0.2], [0.1, 0.0, 0.8]])
            q0[: 3 * n] = (c + A @ (r - c)).reshape(-1)
            rod, Q = rodbuild.make_rod(rs, q0=q0)
        system.add(rod)
        j = sysbuild.make_joint({"type": "RigidConnection", "xi2": 0.0}, system.origin, rod)
        system.add(j)
        info["has_constraint"] = True
    with quiet():
        system.assemble(options=SolverOptions(fixed_point_atol=1e-10, fixed_point_max_iter=20000))
    return system, info


def check(spec):
    res = Result()
    D = sysbuild.dense
    kind = spec["kind"]
    site = f"consistent_initial_conditions[{kind}]"
    feats = {"kind": kind}
    reject = spec.get("reject")
    if reject:
        raised = False
        try:
            system, info = build_system(spec)
        except AssertionError:
            raised = True
        res.ok()
        if not raised:
            res.fail("rejects_inconsistent", f"{site}:{reject}", None, feats, "assembly accepted an inconsistent initial state")
        res.nontrivial = True
        res.label(f"reject:{reject}", f"kind:{kind}")
        return res

    system, info = build_system(spec)
    S = system
    t0, q0, u0 = S.t0, S.q0, S.u0
    ud, la_g, la_c, la_N, la_F = S.u_dot0, S.la_g0, S.la_c0, S.la_N0, S.la_F0
    M = D(S.M(t0, q0))
    h = S.h(t0, q0, u0)
    terms = [M @ ud, -h]
    if S.nla_c:
        terms.append(-D(S.W_c(t0, q0)) @ la_c)
    if S.nla_tau:
        terms.append(-D(S.W_tau(t0, q0)) @ S.la_tau(t0, q0, u0))
    if S.nla_g:
        terms.append(-D(S.W_g(t0, q0)) @ la_g)
    if S.nla_gamma:
        terms.append(-D(S.W_gamma(t0, q0)) @ S.la_gamma0)
    if S.nla_N:
        terms.append(-D(S.W_N(t0, q0)) @ la_N)
    if S.nla_F:
        terms.append(-D(S.W_F(t0, q0)) @ la_F)
    resid = sum(terms)
    scale = 1.0 + max(float(np.max(np.abs(x))) for x in terms)
    tol = 1e-6 * scale
    err = float(np.max(np.abs(resid)))
    res.ok()
    if err > tol:
        res.fail("equations_of_motion", site, err, dict(feats, actuator=spec.get("actuator", {}).get("type")),
                 f"residual {err:.3e} scale {scale:.3e}")
    if S.nla_c:
        c = S.c(t0, q0, u0, la_c)
        res.ok()
        if np.max(np.abs(c)) > 1e-8 * (1 + np.max(np.abs(la_c))):
            res.fail("compliance_equation", site, float(np.max(np.abs(c))), feats)
    if S.nla_g:
        gdd = S.g_ddot(t0, q0, u0, ud)
        res.ok()
        if np.max(np.abs(gdd)) > 1e-6 * (1 + np.max(np.abs(ud))):
            res.fail("acceleration_level_constraints", site, float(np.max(np.abs(gdd))), feats)
    if S.nla_gamma:
        gmd = S.gamma_dot(t0, q0, u0, ud)
        res.ok()
        if np.max(np.abs(gmd)) > 1e-6 * (1 + np.max(np.abs(ud))):
            res.fail("acceleration_level_constraints", site, float(np.max(np.abs(gmd))), feats, "gamma_dot")
    if S.nla_N:
        gN = S.g_N(t0, q0)
        gNd = S.g_N_dot(t0, q0, u0)
        gNdd = S.g_N_ddot(t0, q0, u0, ud)
        # the gap acceleration along the returned accelerations, differenced independently of the contact's own
        # g_N_ddot (which the consistency solve itself uses)
        from harness.numdiff import directional
        qd0 = S.q_dot(t0, q0, u0)
        num, dis = directional(lambda e: S.g_N_dot(t0 + e, q0 + e * qd0, u0 + e * ud), 1e-3)
        if dis < 1e-7 * (1 + float(np.max(np.abs(ud)))):
            gNdd = np.asarray(num, dtype=float)
        gF = S.gamma_F(t0, q0, u0) if S.nla_F else np.zeros(0)
        gFd = S.gamma_F_dot(t0, q0, u0, ud) if S.nla_F else np.zeros(0)
        ftol = 1e-6 * scale
        for c in S.contributions:
            if not hasattr(c, "la_NDOF"):
                continue
            i = int(c.la_NDOF[0])
            closed = abs(gN[i]) <= 1e-8 and abs(gNd[i]) <= 1e-8
            res.ok()
            if la_N[i] < -ftol:
                res.fail("signorini:la_N_nonnegative", site, -la_N[i], feats)
            if not closed:
                res.ok()
                if abs(la_N[i]) > ftol:
                    res.fail("signorini:open_contact_carries_no_force", site, abs(la_N[i]), feats)
                continue
            res.ok()
            if gNdd[i] < -1e-6 * (1 + np.max(np.abs(ud))):
                res.fail("signorini:g_N_ddot_nonnegative", site, -gNdd[i], feats)
            res.ok()
            if abs(la_N[i] * gNdd[i]) > ftol * (1 + abs(gNdd[i])):
                res.fail("signorini:complementarity", site, abs(la_N[i] * gNdd[i]), feats)
            if hasattr(c, "la_FDOF"):
                mu = c.friction_laws[0][2].r
                iF = np.asarray(c.la_FDOF, dtype=int)
                lF = la_F[iF]
                res.ok()
                if np.linalg.norm(lF) > mu * la_N[i] + ftol:
                    res.fail("coulomb:inside_cone", site, float(np.linalg.norm(lF) - mu * la_N[i]), feats)
                g = gF[iF]
                if np.linalg.norm(g) > 1e-8:  # slip
                    want = -mu * la_N[i] * g / np.linalg.norm(g)
                    res.ok()
                    if np.linalg.norm(lF - want) > ftol:
                        res.fail("coulomb:slip_opposes_velocity_with_maximal_magnitude", site, float(np.linalg.norm(lF - want)), feats)
                    res.label("contact:slip")
                else:  # stick candidates
                    gd = gFd[iF]
                    on_cone = np.linalg.norm(lF) >= mu * la_N[i] - ftol
                    res.ok()
                    if not on_cone and np.linalg.norm(gd) > 1e-6 * (1 + np.max(np.abs(ud))):
                        res.fail("coulomb:stick_has_zero_slip_acceleration", site, float(np.linalg.norm(gd)), feats)
                    if on_cone and np.linalg.norm(gd) > 1e-6 and mu * la_N[i] > ftol:
                        want = -mu * la_N[i] * gd / np.linalg.norm(gd)
                        res.ok()
                        if np.linalg.norm(lF - want) > 1e-4 * scale:
                            res.fail("coulomb:onset_of_slip_opposes_slip_acceleration", site, float(np.linalg.norm(lF - want)), feats)
                    res.label("contact:stick_candidate")
            res.label("contact:closed")
    res.nontrivial = bool(info["has_constraint"] and info["has_special"])
    res.label(f"kind:{kind}")
    if kind == "contact":
        sp_ = spec["spheres"]
        res.label(f"contacts:{len(sp_)}", "first_of_several:" + sp_[0]["state"] if len(sp_) > 1 else "single")
        if len(sp_) > 1 and sp_[0]["state"] == "open" and sp_[0]["mu"] > 0 and any(x["state"] != "open" and x["mu"] > 0 for x in sp_[1:]):
            res.label("contacts:open_frictional_listed_before_persistent_frictional")
        res.label("plane:tilting" if spec.get("plane_spin") else "plane:constant",
                  "plane:placed" if np.any(np.array(spec.get("placement", [0, 0, 0])) != 0) else "plane:horizontal")
    if "actuator" in spec:
        res.label("actuator:" + spec["actuator"]["type"])
    if "law" in spec:
        res.label("law:" + spec["law"]["type"] + ("[c]" if spec["law"]["compliance"] else "[f]"))
    return res
