"""C23 Static solvers return equilibria and are frame-indifferent."""

import warnings

import numpy as np
from hypothesis import strategies as st

from harness import gen, build, sysbuild, rodbuild, dynbuild
from harness.runner import Result, quiet

PROPERTY = "C23"
LEVEL = "exploration"
RULE = (
    "case kinds. cantilever: a rod in any of the formulations (3 interpolations x displacement-based/mixed x "
    "constraint sets, degree 1..3, 1..4 elements, both material laws where admissible, straight or helical "
    "reference) clamped at xi=0 by a RigidConnection to a frame, loaded at the tip by a spatial Force, a body-fixed "
    "B_Force, a Moment and a B_Moment that grow with the load parameter (optionally with a dead part already present at "
    "load parameter 0, so that the first returned step is not the reference configuration), solved with Newton in 1..8 load steps; the "
    "same problem is solved again after a rigid placement (rotation vector up to pi, translation) of clamp, "
    "reference and spatial loads. springs: a rigid body held by three springs and loaded, solved with Newton and "
    "with Riks (random initial arc length, load span, and a small max_load_steps so that early stops occur). "
    "Non-trivial: tip deflection > 5% of the length and placement angle > 0.1 (cantilever) / a Riks run that stops early."
)
ASSUMPTIONS = [
    "solver tolerance newton_atol = 1e-9; every returned row is judged by the residual recomputed through the "
    "System API: h + W_g la_g + W_c la_c + W_N la_N, g, c, g_S, min(la_N, g_N), each <= 1e-7*(1+force scale), i.e. 100x the "
    "requested tolerance (the unchanged solvers stay below 1e-8 in 400 generated problems)",
    "frame indifference: nodal positions of the moved problem equal R0 r + b and nodal rotation matrices R0 A "
    "(compared as matrices) within 1e-6*(1+L); both runs must have converged in all load steps",
    "early stop: fewer rows than load steps (Newton) or a last arc-length parameter strictly inside the requested "
    "span (Riks) requires a recorded warning",
]
CASES = {"quick": 48, "thorough": 600}
SHARDS = {"quick": 12, "thorough": 16}
TECHNIQUE = "generated static problems; validity predicate (equilibrium residual recomputed), metamorphic relation (rigid placement of the whole problem), early-stop announcement"
LEVEL_TEXT = (
    "Generated-input search over rod formulations, loads and placements with a recomputed equilibrium residual and "
    "a rigid-placement metamorphic relation; Riks runs with small step budgets probe the early-stop clause. Sampling."
)
LEVEL_NOTE = "trusted: System evaluation methods (C04-C11, C14)"


@st.composite
def _case(draw):
    kind = draw(st.sampled_from(["cantilever", "cantilever", "springs", "springs"]))
    if kind == "cantilever":
        rs = draw(rodbuild.rod_spec(max_nel=4))
        rs["L"] = draw(gen.f(1.0, 2.5))
        if rs["ref"] == "helix":
            rs["helix"]["angle"] = min(rs["helix"]["angle"], 1.2)
        EI = min(rs["Fi"][1:])
        L = rs["L"]
        sc = EI / L**2
        return {"kind": kind, "rod": rs, "nsteps": draw(st.integers(1, 8)),
                # part of the load that is already present at load parameter 0 (dead load): load(t) = (a + (1-a) t) F
                "preload": draw(st.sampled_from([0.0, 0.0, 0.2, 0.5])),
                "F": (np.array(draw(gen.unit_vec3())) * sc * draw(gen.f(0.3, 2.0))).tolist(),
                "BF": (np.array(draw(gen.unit_vec3())) * sc * draw(gen.f(0.0, 1.0))).tolist(),
                "M": (np.array(draw(gen.unit_vec3())) * EI / L * draw(gen.f(0.0, 1.0))).tolist(),
                "BM": (np.array(draw(gen.unit_vec3())) * EI / L * draw(gen.f(0.0, 1.0))).tolist(),
                # placement: any rotation, or one beyond three quarters of a half turn (absolute cross-section rotations
                # beyond 180 degrees then occur along the bent rod)
                "psi": draw(gen.rotvec(min_exp=-1, near_max=False)) if draw(st.integers(0, 2)) else
                       (np.array(draw(gen.unit_vec3())) * draw(gen.f(2.4, 3.1))).tolist(),
                "b": [draw(gen.f(-2, 2)) for _ in range(3)]}
    solver = draw(st.sampled_from(["Newton", "Newton", "Riks"]))
    return {"kind": kind, "solver": solver, "nsteps": draw(st.integers(1, 8)),
            "preload": draw(st.sampled_from([0.0, 0.3, 0.6])) if solver == "Newton" else 0.0,
            # the model carries an initial velocity (it is also used for dynamics); statics must ignore it
            "u0": [draw(gen.f(-3, 3)) for _ in range(6)] if draw(st.integers(0, 2)) else None,
            "k": [draw(gen.f(5, 40)) for _ in range(3)], "F": [draw(gen.f(-3, 3)) for _ in range(3)],
            "la_arc0": draw(gen.f(0.01, 0.2)), "span1": draw(gen.f(0.5, 2.0)), "max_load_steps": draw(st.integers(1, 30))}


def strategy(tier):
    return _case()


def build_cantilever(spec, placement=None):
    from cardillo.discrete import Frame
    from cardillo.forces import Force, B_Force, Moment, B_Moment

    rs = dict(spec["rod"])
    R0, b = np.eye(3), np.zeros(3)
    if placement is not None:
        R0 = gen._exp(np.array(placement[0], dtype=float))
        b = np.array(placement[1], dtype=float)
    A0 = gen._exp(np.array(rs["psi0"], dtype=float))
    r0 = np.array(rs["r0"], dtype=float)
    rs["A0"] = (R0 @ A0).tolist()
    rs["r0"] = (R0 @ r0 + b).tolist()
    system = sysbuild.new_system(0.0)
    rod, Q = rodbuild.make_rod(rs)
    n = rodbuild.nnodes(rs)
    clamp_r = Q[[0, n, 2 * n]]
    clamp_A = gen.quat_to_R(Q[3 * n + np.array([0, n, 2 * n, 3 * n])])
    frame = Frame(r_OP=clamp_r, A_IB=clamp_A, name="clamp_frame")
    system.add(frame, rod)
    system.add(sysbuild.make_joint({"type": "RigidConnection", "xi2": 0.0}, frame, rod))
    F, BF, M, BM = (np.array(spec[k], dtype=float) for k in ("F", "BF", "M", "BM"))
    RF, RM = R0 @ F, R0 @ M
    a = float(spec.get("preload", 0.0))
    lam = lambda t: a + (1.0 - a) * t
    system.add(Force(lambda t: lam(t) * RF, rod, xi=1.0, name="tip_force"))
    system.add(B_Force(lambda t: lam(t) * BF, rod, xi=1.0, name="tip_b_force"))
    system.add(Moment(lambda t: lam(t) * RM, rod, xi=1.0, name="tip_moment"))
    system.add(B_Moment(lambda t: lam(t) * BM, rod, xi=1.0, name="tip_b_moment"))
    sysbuild.assemble(system)
    return system, rod, Q, rs


def build_springs(spec):
    from cardillo.discrete import Frame, RigidBody
    from cardillo.forces import Force

    system = sysbuild.new_system(0.0)
    u0 = np.array(spec["u0"], dtype=float) if spec.get("u0") else None
    rb = RigidBody(1.0, np.diag([0.1, 0.2, 0.3]), q0=np.array([0.5, 0.2, -0.1, 1.0, 0, 0, 0]), u0=u0, name="rb")
    system.add(rb)
    anchors = [[0.0, 0.0, 0.0], [2.0, 1.0, 0.5], [0.5, -1.5, 1.0], [-1.0, 0.5, -1.0], [1.0, -0.5, 2.0], [0.0, 2.0, -1.0]]
    offs = [[0.2, 0, 0], [0, 0.2, 0], [0, 0, 0.2], [-0.2, 0, 0], [0, -0.2, 0], [0, 0, -0.2]]
    for i, (a, o) in enumerate(zip(anchors, offs)):
        fr = Frame(r_OP=np.array(a, dtype=float), name=f"anchor{i}")
        system.add(fr)
        tpi = sysbuild.make_tpi({"B1": [0.0] * 3, "B2": o, "name": f"tpi{i}"}, fr, rb)
        system.add(tpi)
        el = sysbuild.make_force_law({"type": "Spring", "k": spec["k"][i % 3], "l_ref": None, "compliance": i % 2 == 0}, tpi)
        el.name = f"spring{i}"
        system.add(el)
    F = np.array(spec["F"], dtype=float)
    a = float(spec.get("preload", 0.0))
    system.add(Force(lambda t: (a + (1.0 - a) * t) * F, rb, B_r_CP=np.array([0.1, 0.0, 0.05]), name="load"))
    sysbuild.assemble(system)
    return system


def equilibrium(res, system, sol, site, feats, tol=1e-7):
    D = sysbuild.dense
    t, q = np.asarray(sol.t, dtype=float), np.asarray(sol.q, dtype=float)
    la_g = np.asarray(sol.la_g) if sol.la_g is not None else np.zeros((len(t), 0))
    la_c = np.asarray(sol.la_c) if sol.la_c is not None else np.zeros((len(t), 0))
    la_N = np.asarray(sol.la_N) if getattr(sol, "la_N", None) is not None else np.zeros((len(t), 0))
    u0 = np.zeros(system.nu)
    worst = {}
    for k in range(len(t)):
        terms = [system.h(t[k], q[k], u0)]
        if system.nla_g:
            terms.append(D(system.W_g(t[k], q[k])) @ la_g[k])
        if system.nla_c:
            terms.append(D(system.W_c(t[k], q[k])) @ la_c[k])
        if system.nla_N:
            terms.append(D(system.W_N(t[k], q[k])) @ la_N[k])
        sc = 1.0 + max(float(np.max(np.abs(x))) for x in terms)
        vals = {"force_balance": float(np.max(np.abs(sum(terms)))) / sc}
        if system.nla_g:
            vals["bilateral_constraints"] = float(np.max(np.abs(system.g(t[k], q[k]))))
        if system.nla_c:
            vals["compliance_equations"] = float(np.max(np.abs(system.c(t[k], q[k], u0, la_c[k])))) / (1 + float(np.max(np.abs(la_c[k]))))
        if system.nla_S:
            vals["unit_quaternions"] = float(np.max(np.abs(system.g_S(t[k], q[k]))))
        if system.nla_N:
            vals["static_signorini"] = float(np.max(np.abs(np.minimum(la_N[k], system.g_N(t[k], q[k])))))
        for name, v in vals.items():
            res.ok()
            if not np.isfinite(v) or v > tol:
                if name not in worst or not np.isfinite(v) or v > worst[name][0]:
                    worst[name] = (v, k)
    for name, (v, k) in worst.items():
        res.fail("equilibrium:" + name, site, v, feats, f"row {k} (t={t[k]:.4f}): {v:.3e}")


def check(spec):
    from cardillo.solver import Newton, Riks

    res = Result()
    opts = dynbuild.options(newton_atol=1e-9, newton_rtol=1e-9, newton_max_iter=40)
    kind = spec["kind"]
    if kind == "cantilever":
        rs = spec["rod"]
        site = "Newton"
        feats = {"formulation": rodbuild.formulation_name(rs), "degree": rs["degree"], "nel": rs["nel"], "material": rs["material"]}
        runs = []
        for placement in (None, (spec["psi"], spec["b"])):
            system, rod, Q, rs2 = build_cantilever(spec, placement)
            with warnings.catch_warnings(record=True) as rec:
                warnings.simplefilter("always")
                with quiet():
                    sol = Newton(system, n_load_steps=spec["nsteps"], options=opts).solve()
            msgs = [str(w.message) for w in rec]
            runs.append((system, sol, msgs, rs2))
        complete = []
        for system, sol, msgs, _ in runs:
            t = np.asarray(sol.t)
            full = len(t) == spec["nsteps"] + 1
            complete.append(full)
            res.ok()
            if not full and not any("Returning solution" in m or "No load step" in m for m in msgs):
                res.fail("early_stop_announced", site, None, feats, f"{len(t)} of {spec['nsteps'] + 1} load steps, warnings={msgs[:2]}")
            if len(t):
                equilibrium(res, system, sol, site, feats)
        n = rodbuild.nnodes(rs)
        L = rs["L"]
        defl = 0.0
        if all(complete):
            (s1, sol1, _, _), (s2, sol2, _, _) = runs
            R0 = gen._exp(np.array(spec["psi"], dtype=float))
            b = np.array(spec["b"], dtype=float)
            q1, q2 = np.asarray(sol1.q)[-1], np.asarray(sol2.q)[-1]
            r1 = q1[: 3 * n].reshape(3, n)
            r2 = q2[: 3 * n].reshape(3, n)
            err_r = float(np.max(np.abs(r2 - (R0 @ r1 + b[:, None]))))
            P1 = q1[3 * n:].reshape(4, n)
            P2 = q2[3 * n:].reshape(4, n)
            err_A = max(float(np.max(np.abs(gen.quat_to_R(P2[:, i]) - R0 @ gen.quat_to_R(P1[:, i])))) for i in range(n))
            res.ok()
            if max(err_r, err_A) > 1e-6 * (1 + L):
                res.fail("frame_indifferent", site, max(err_r, err_A), feats, f"positions {err_r:.3e}, orientations {err_A:.3e}")
            Qr = np.asarray(runs[0][0].q0)[: 3 * n].reshape(3, n)
            defl = float(np.linalg.norm(r1[:, -1] - Qr[:, -1]))
            res.label("both_runs_complete")
        else:
            res.label("incomplete_run")
        ang = float(np.linalg.norm(spec["psi"]))
        res.nontrivial = all(complete) and defl > 0.05 * L and ang > 0.1
        res.label("cantilever", feats["formulation"], rs["material"], "preload" if spec.get("preload", 0.0) > 0 else "proportional_load")
        return res

    # ---- springs: Newton / Riks ----------------------------------------------------------------
    system = build_springs(spec)
    solver = spec["solver"]
    site = solver
    feats = {"solver": solver}
    raised = None
    with warnings.catch_warnings(record=True) as rec:
        warnings.simplefilter("always")
        try:
            with quiet():
                if solver == "Newton":
                    sol = Newton(system, n_load_steps=spec["nsteps"], options=opts).solve()
                else:
                    sol = Riks(system, la_arc0=spec["la_arc0"], la_arc_span=np.array([0.0, spec["span1"]]),
                               max_load_steps=spec["max_load_steps"], options=opts).solve()
        except AssertionError as e:
            raised = e
    msgs = [str(w.message) for w in rec]
    if raised is not None:
        res.ok()
        res.label("riks_raised_not_converged")
        res.inconclusive += 1
        return res
    t = np.asarray(sol.t, dtype=float)
    early = False
    if solver == "Newton":
        early = len(t) < spec["nsteps"] + 1
    else:
        early = len(t) > 0 and 0.0 <= t[-1] <= spec["span1"]
    res.ok()
    if early and not any(("max_load_steps" in m) or ("Returning solution" in m) or ("No load step" in m) or ("stopped" in m.lower()) for m in msgs):
        res.fail("early_stop_announced", site, None, feats,
                 f"run ended at load parameter {t[-1] if len(t) else None!r} inside [0, {spec.get('span1', 1.0)}] after "
                 f"{len(t) - 1} steps (max_load_steps={spec.get('max_load_steps')}) without a warning")
    if solver == "Riks":
        sol.la_N = None if system.nla_N == 0 else sol.la_N
    equilibrium(res, system, sol, site, feats)
    res.nontrivial = bool(early) if solver == "Riks" else len(t) >= 3
    res.label("springs", f"solver:{solver}", "early_stop" if early else "complete", "preload" if spec.get("preload", 0.0) > 0 else "proportional_load")
    return res
