"""C18 Nonsmooth integrators satisfy the discrete Signorini-Coulomb laws."""

import numpy as np
from hypothesis import strategies as st

from harness import gen, dynbuild, sysbuild
from harness.runner import Result

PROPERTY = "C18"
LEVEL = "exploration"
RULE = (
    "case = scene of 1-3 spheres (RigidBody with isotropic inertia or PointMass) over a plane, optional sphere-sphere "
    "contacts between neighbours, restitution in [0,1], friction in {0, 0.1, 0.3, 0.6, 1}, initial heights/velocities "
    "and spins such that impacts, resting, sliding and rolling occur; one quarter of the scenes are force-free and "
    "frictionless with one common restitution coefficient (energy clause) x solver in {Moreau, Rattle, BackwardEuler, "
    "DualStormerVerlet} x step size in [2e-3, 2e-2] x 40..120 steps. Non-trivial: at least one impact step and at "
    "least one persistent-contact step occurred."
)
ASSUMPTIONS = [
    "solver tolerances 1e-10; verdict thresholds 1e-6*(1+scale) for percussions / velocities, 1e-7 for gaps",
    "configuration at which each scheme tests its contacts, recomputed by the harness from the stored states: "
    "Moreau explicit midpoint q_n + dt/2 q_dot(t_n,q_n,u_n); DualStormerVerlet implicit midpoint (fixed point of "
    "q_m = q_n + dt/2 q_dot(t_m,q_m,u_n)); Rattle and BackwardEuler the end point q_{n+1}",
    "velocity-level quantities xi_N = g_N_dot^+ + e_N g_N_dot^-, xi_F = gamma_F^+ (e_F = 0) evaluated at that "
    "configuration for Moreau/DSV and at (q_n, q_{n+1}) for Rattle; BackwardEuler is position level: P_N _|_ g_N(q_{n+1}), "
    "friction against gamma_F(q_{n+1}, u_{n+1})",
    "Rattle's stored percussion is the sum of both stages; its total obeys the velocity-level law on the contacts "
    "closed at q_{n+1} and vanishes on open ones; the stage-1 position-level law is observed through 'no penetration'",
    "energy clause: force-free, frictionless, one common e_N <= 1: E_kin(n+1) <= E_kin(n) + 1e-8*(1+E); force-free scenes use isotropic inertia (no gyroscopic forces)",
]
CASES = {"quick": 100, "thorough": 3000}
SHARDS = {"quick": 10, "thorough": 16}
TECHNIQUE = "generated contact scenes x nonsmooth solver x step size; per-step validity predicates (Signorini, Coulomb disk, maximal dissipation, no penetration, energy) recomputed from the stored states through the System API"
LEVEL_TEXT = (
    "Generated-input search over scenes with impacts, resting, sliding and rolling contacts; every stored step is "
    "judged by validity predicates recomputed independently of the solver's own prox iteration. Sampling."
)
LEVEL_NOTE = "trusted: System.g_N, g_N_dot, gamma_F, M (C06, C14); reconstruction of the midpoint configurations"


@st.composite
def _case(draw):
    sc = draw(dynbuild.scene())
    dt = 10.0 ** draw(gen.f(-2.7, -1.7))
    if draw(st.integers(0, 7)) == 0:
        # coupled contacts: ball A touches the plane while the applied force pulls it away (the contact would open in the
        # free motion of the step), and ball B strikes A from above within the first step and presses it back
        rA, rB, v = draw(gen.f(0.1, 0.3)), draw(gen.f(0.1, 0.3)), draw(gen.f(0.5, 3.0))
        eN = draw(st.sampled_from([0.0, 0.5]))
        mk = lambda r, z, vz, m: {"radius": r, "mass": m, "rigid": draw(st.booleans()), "r": [0.0, 0.0, z], "v": [0.0, 0.0, vz],
                                  "inertia": None, "P": [1.0, 0.0, 0.0, 0.0], "omega": [0.0, 0.0, 0.0], "mu": 0.0, "e_N": eN}
        sc = {"spheres": [mk(rA, rA, 0.0, draw(gen.f(0.5, 2.0))), mk(rB, 2 * rA + rB + 0.25 * v * dt, -v, draw(gen.f(0.5, 2.0)))],
              "gravity": [0.0, 0.0, draw(gen.f(0.5, 9.81))], "force_free": False, "plane": True,
              "pairs": [{"a": 0, "b": 1, "mu": 0.0, "e_N": eN}], "pinch": True}
    return {"scene": sc, "solver": draw(st.sampled_from(dynbuild.NONSMOOTH_SOLVERS)),
            "dt": dt, "nsteps": draw(st.integers(40, 120)),
            # DualStormerVerlet: accelerated fixed-point iteration (default) or the plain one
            "dsv_accelerated": draw(st.booleans())}


def strategy(tier):
    return _case()


def _midpoint(system, solver, t, q, u, dt):
    if solver == "Moreau":
        return t + 0.5 * dt, q + 0.5 * dt * system.q_dot(t, q, u)
    tm = t + 0.5 * dt
    qm = q.copy()
    for _ in range(200):
        new = q + 0.5 * dt * system.q_dot(tm, qm, u)
        if np.max(np.abs(new - qm)) < 1e-15:
            qm = new
            break
        qm = new
    return tm, qm


def check(spec):
    res = Result()
    D = sysbuild.dense
    solver = spec["solver"]
    sc = spec["scene"]
    try:
        system, objs = dynbuild.build_scene(sc)
    except AssertionError as e:
        if "does not converge" in str(e):
            # the consistency solve announced that it stalled: nothing to integrate (subject of C16/C21)
            res.inconclusive += 1
            res.label("assembly_fixed_point_stalled")
            return res
        raise
    dt, n = spec["dt"], spec["nsteps"]
    try:
        kw = {"accelerated": bool(spec.get("dsv_accelerated", True))} if solver == "DualStormerVerlet" else {}
        sol, wrn = dynbuild.run(solver, system, system.t0 + n * dt, dt, **kw)
    except (RuntimeError, ValueError) as e:
        if "not converged" in str(e) or "did not converge" in str(e):
            res.inconclusive += 1
            res.label("solver_raised_not_converged:" + solver)
            return res
        raise
    if any("Returning solution up to" in w for w in wrn):
        res.inconclusive += 1
        res.label("truncated:" + solver)
        return res
    t, q, u = np.asarray(sol.t), np.asarray(sol.q), np.asarray(sol.u)
    P_N, P_F = np.asarray(sol.P_N), np.asarray(sol.P_F)
    nt = len(t)
    contacts = objs["contacts"]
    feats = {"solver": solver}
    impacts = persistent = sliding = 0
    worst = {}

    def note(sub, site, err, tol, k):
        res.ok()
        if not np.isfinite(err) or err > tol:
            key = (sub, site)
            if key not in worst or err > worst[key][0]:
                worst[key] = (err, tol, k)

    e_N = system.e_N
    for k in range(nt - 1):
        tn, qn, un = t[k], q[k], u[k]
        tn1, qn1, un1 = t[k + 1], q[k + 1], u[k + 1]
        PN, PF = P_N[k + 1], P_F[k + 1] if P_F.size else np.zeros(0)
        scaleP = 1.0 + float(np.max(np.abs(PN))) if PN.size else 1.0
        scalev = 1.0 + float(np.max(np.abs(un1)))
        gN1 = system.g_N(tn1, qn1)
        if solver in ("Moreau", "DualStormerVerlet"):
            tm, qm = _midpoint(system, solver, tn, qn, un, dt)
            gNc = system.g_N(tm, qm)
            xiN = system.g_N_dot(tm, qm, un1) + e_N * system.g_N_dot(tm, qm, un)
            xiF = system.gamma_F(tm, qm, un1) if system.nla_F else np.zeros(0)
            # Moreau: isclose(g, 0, atol=1e-8) or g <= 0; DSV: g <= 0 exactly. Gaps between the two thresholds
            # used here (closed / open at 1e-6) are not asserted either way.
            closed = gNc <= (0.5e-8 if solver == "Moreau" else -1e-9)
        elif solver == "Rattle":
            gNc = gN1
            xiN = system.g_N_dot(tn1, qn1, un1) + e_N * system.g_N_dot(tn, qn, un)
            xiF = system.gamma_F(tn1, qn1, un1) if system.nla_F else np.zeros(0)
            # Rattle's active set is (r/dt) g_N - P_N1 <= 0 with the unobserved stage-1 percussion: a contact that
            # closes exactly (g_N = +1e-17, P_N1 = 0) is still inactive. Only clearly active contacts are asserted.
            closed = (gNc < -1e-10) | (PN > 1e-6 * scaleP)
        else:
            gNc = gN1
            xiN = None
            xiF = system.gamma_F(tn1, qn1, un1) if system.nla_F else np.zeros(0)
            closed = gNc <= 1e-7
        for c in contacts:
            i = int(c.la_NDOF[0])
            cname = c.__class__.__name__
            site = f"{solver}x{cname}"
            note("PN_nonnegative", site, max(0.0, -PN[i]), 1e-6 * scaleP, k)
            if gNc[i] > 1e-6:
                note("PN_zero_if_open", site, abs(PN[i]), 1e-6 * scaleP, k)
            if solver in ("Rattle", "BackwardEuler"):
                note("no_penetration", site, max(0.0, -gN1[i]), 1e-7, k)
            if solver == "BackwardEuler":
                note("complementarity_gap", site, abs(PN[i] * gN1[i]), 1e-7 * scaleP, k)
            elif closed[i]:
                note("restituted_gap_rate_nonnegative", site, max(0.0, -xiN[i]), 1e-6 * scalev, k)
                note("complementarity_gap_rate", site, abs(PN[i] * xiN[i]), 1e-6 * scaleP * scalev, k)
            if PN[i] > 1e-6 * scaleP:
                if abs(system.g_N_dot(tn, qn, un)[i]) > 1e-3:
                    impacts += 1
                else:
                    persistent += 1
            if hasattr(c, "la_FDOF"):
                mu = c.friction_laws[0][2].r
                iF = np.asarray(c.la_FDOF, dtype=int)
                pf = PF[iF]
                note("coulomb_disk", site, max(0.0, float(np.linalg.norm(pf)) - mu * max(PN[i], 0.0)), 1e-6 * scaleP, k)
                xf = xiF[iF]
                if PN[i] > 1e-6 * scaleP and np.linalg.norm(xf) > 1e-3 * scalev:
                    if cname == "Sphere2Sphere":
                        # the tangent basis of a sphere-sphere contact is re-oriented by step_callback after every
                        # step, so components recomputed after the run are in another basis: compare magnitudes
                        note("maximal_magnitude_when_sliding", site, abs(float(np.linalg.norm(pf)) - mu * PN[i]), 1e-4 * scaleP, k)
                    else:
                        want = -mu * PN[i] * xf / np.linalg.norm(xf)
                        note("maximal_dissipation_when_sliding", site, float(np.linalg.norm(pf - want)), 1e-6 * scaleP, k)
                    sliding += 1
    for (sub, site), (err, tol, k) in worst.items():
        res.fail(sub, site, err, feats, f"worst step {k}: err={err:.3e} tol={tol:.1e} dt={dt:.2e}")

    # ---- kinetic energy never increases in force-free frictionless scenes ------------------------
    if sc["force_free"]:
        M = D(system.M(system.t0, system.q0))
        E = np.array([0.5 * u[k] @ M @ u[k] for k in range(nt)])
        inc = float(np.max(np.diff(E))) if nt > 1 else 0.0
        kinds = sorted(set(c.__class__.__name__ for c in contacts))
        site = f"{solver}x{'+'.join(kinds)}"
        res.ok()
        if inc > 1e-8 * (1 + float(E.max())):
            res.fail("kinetic_energy_never_increases", site, inc, dict(feats, contacts="+".join(kinds)),
                     f"max increase {inc:.3e} of E={float(E.max()):.3e}, dt={dt:.2e}")
        res.label("force_free")
    res.nontrivial = impacts > 0 and persistent > 0
    res.label(f"solver:{solver}")
    if solver == "DualStormerVerlet":
        res.label("dsv:accelerated" if spec.get("dsv_accelerated", True) else "dsv:plain_fixed_point")
    if sc.get("plane_motion"):
        res.label("plane:moving:" + solver)
    if sc.get("pinch"):
        res.label("coupled_contacts_pinch:" + solver)
    if impacts:
        res.label("has_impact")
    if persistent:
        res.label("has_persistent_contact")
    if sliding:
        res.label("has_sliding")
    if sc["pairs"]:
        res.label("sphere_sphere")
    return res
