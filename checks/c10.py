"""C10 Cosserat rod internal forces are stress-free, objective and self-equilibrated."""

import numpy as np
from hypothesis import strategies as st

from harness import gen, sysbuild, rodbuild
from harness.runner import Result

PROPERTY = "C10"
LEVEL = "exploration"
RULE = (
    "case = rod formulation (interpolation Quaternion/SE3/R12 x displacement-based/mixed x internal-constraint set "
    "in {none, [1,2], [0,1,2], [3,4,5], all six, [0], [4,5]} x polynomial degree 1..3 x 1..4 elements x Simo1986 / "
    "Harsch2021 where admissible) x stress-free reference (straight in a random pose or helical with twist, built "
    "with the rod's own pose_configuration) x state = reference + bounded nodal perturbation with rescaled "
    "(non-unit) nodal quaternions x rigid motion (rotation vector with norm up to pi, translation) x random "
    "compliance and constraint multipliers. Non-trivial: curved reference, perturbed state, rotation angle > 0.1."
)
ASSUMPTIONS = [
    "through the System API on a system that contains the rod only (assembled without the consistency solve)",
    "stress-free: |E_pot|, |h|, |c|, |la_c|, |g| at the reference <= 1e-10 * max stiffness",
    "objectivity: E_pot, c (with the same la_c), g before/after the rigid motion agree to 1e-9 relative (+1e-11 "
    "absolute * stiffness); h under pure translation likewise",
    "zero resultant: the sum over nodes of the translational generalized internal forces (h(q,0), W_c la_c, "
    "W_g la_g) vanishes to 1e-10 relative",
    "mixed and constrained formulations are built with the quadratic law only (the code's documented restriction)",
]
CASES = {"quick": 300, "thorough": 10000}
SHARDS = {"quick": 8, "thorough": 16}
TECHNIQUE = "generated rod formulation x reference x state x rigid motion; metamorphic relation (superposed rigid motion), exact expected values at the reference, resultant identity"
LEVEL_TEXT = (
    "Generated-input search over the formulation grid with metamorphic (rigid motion) and exact-value oracles; "
    "the formulation grid is also enumerated as static cases. Sampling, not proof."
)
LEVEL_NOTE = "trusted: numpy; the rod's own configuration helpers to build references"


@st.composite
def _case(draw):
    rs = draw(rodbuild.rod_spec())
    if draw(st.integers(0, 3)) == 0:
        rs["Q_scales"] = [draw(gen.f(0.7, 1.4)) for _ in range(5)]
    return {
        "rod": rs,
        "dr": [draw(gen.f(-1, 1)) for _ in range(9)],
        "dp": [draw(gen.f(-1, 1)) for _ in range(8)],
        "scales": [draw(gen.f(0.7, 1.4)) for _ in range(5)],
        "psi": draw(gen.rotvec(min_exp=-1, near_max=False)),
        "b": [draw(gen.f(-3, 3)) for _ in range(3)],
        "la": [draw(gen.f(-2, 2)) for _ in range(7)],
        # the rod is given a new reference configuration after construction (set_reference_strains)
        "re_reference": draw(st.integers(0, 3)) == 0,
    }


def strategy(tier):
    return _case()


def static_cases(tier):
    out = []
    for interp in ("Quaternion", "SE3", "R12"):
        for mixed in (False, True):
            for cons in (None, [1, 2], [0, 1, 2, 3, 4, 5]):
                rs = {"interp": interp, "mixed": mixed, "constraints": cons, "degree": 1 if interp == "SE3" else 2,
                      "nel": 2, "material": "Simo1986", "Ei": [5.0, 1.0, 2.0], "Fi": [0.5, 2.0, 3.0], "L": 2.0,
                      "ref": "helix", "r0": [0.1, -0.2, 0.3], "psi0": [0.2, -0.1, 0.4], "A_rho0": 1.0,
                      "I_rho0": [0.1, 0.2, 0.3], "helix": {"R": 1.0, "c": 0.3, "angle": 1.0, "twist": 0.2}}
                out.append({"rod": rs, "dr": [0.3, -0.5, 0.8, -0.2, 0.6, 0.1, -0.7, 0.4, 0.9],
                            "dp": [0.2, -0.4, 0.6, 0.1, -0.3, 0.5, -0.6, 0.7], "scales": [0.8, 1.2, 1.0, 0.9, 1.3],
                            "psi": [0.5, -0.8, 0.3], "b": [1.0, -2.0, 0.5], "la": [0.5, -1.0, 0.7, 0.2, -0.4, 0.9, -0.6]})
    return out


def build(rs):
    system = sysbuild.new_system(0.0)
    rod, Q = rodbuild.make_rod(rs)
    system.add(rod)
    sysbuild.assemble(system)
    return system, rod, Q


def check(spec):
    res = Result()
    D = sysbuild.dense
    rs = spec["rod"]
    system, rod, Q = build(rs)
    if spec.get("re_reference"):
        n_ = rodbuild.nnodes(rs)
        Qn = rodbuild.perturb(rs, Q, spec["dr"][::-1], spec["dp"][::-1], [1.0])
        P_ = Qn[3 * n_:].reshape(4, n_)
        Qn[3 * n_:] = (P_ / np.linalg.norm(P_, axis=0)[None, :]).reshape(-1)
        rod.set_reference_strains(Qn)
        Q = Qn
    site = rodbuild.formulation_name(rs)
    feats = {"formulation": site, "degree": rs["degree"], "nel": rs["nel"], "material": rs["material"]}
    kmax = max(max(rs["Ei"]), max(rs["Fi"]))
    n = rodbuild.nnodes(rs)
    nu = system.nu
    u0 = np.zeros(nu)
    la_c = np.array((spec["la"] * (system.nla_c // 7 + 1))[: system.nla_c], dtype=float)
    la_g = np.array((spec["la"][::-1] * (system.nla_g // 7 + 1))[: system.nla_g], dtype=float)

    def expect(sub, err, tol, detail=None):
        res.ok()
        if not np.isfinite(err) or err > tol:
            res.fail(sub, site, err, feats, detail or f"err={err:.3e} tol={tol:.1e}")

    # ---- stress-free reference -------------------------------------------------------------
    tol0 = 1e-10 * kmax
    expect("stress_free:E_pot", abs(system.E_pot(0.0, Q)), tol0)
    expect("stress_free:h", float(np.max(np.abs(system.h(0.0, Q, u0)))), tol0)
    if system.nla_c:
        zero = np.zeros(system.nla_c)
        expect("stress_free:c", float(np.max(np.abs(system.c(0.0, Q, u0, zero)))), tol0)
        expect("stress_free:la_c", float(np.max(np.abs(system.la_c(0.0, Q, u0)))), tol0)
    if system.nla_g:
        expect("stress_free:g", float(np.max(np.abs(system.g(0.0, Q)))), tol0)

    # ---- objectivity ---------------------------------------------------------------------------
    q = rodbuild.perturb(rs, Q, spec["dr"], spec["dp"], spec["scales"])
    qm = rodbuild.rigid_motion(rs, q, spec["psi"], spec["b"])
    qt = rodbuild.rigid_motion(rs, q, [0.0, 0.0, 0.0], spec["b"])

    def rel(a, b):
        a, b = np.atleast_1d(np.asarray(a, dtype=float)), np.atleast_1d(np.asarray(b, dtype=float))
        s = max(float(np.max(np.abs(a))) if a.size else 0.0, float(np.max(np.abs(b))) if b.size else 0.0)
        return (float(np.max(np.abs(a - b))) if a.size else 0.0), 1e-9 * s + 1e-11 * kmax

    e, t_ = rel(system.E_pot(0.0, q), system.E_pot(0.0, qm))
    expect("objective:E_pot", e, t_)
    if system.nla_c:
        e, t_ = rel(system.c(0.0, q, u0, la_c), system.c(0.0, qm, u0, la_c))
        expect("objective:c", e, t_)
        e, t_ = rel(system.la_c(0.0, q, u0), system.la_c(0.0, qm, u0))
        expect("objective:la_c", e, t_)
    if system.nla_g:
        e, t_ = rel(system.g(0.0, q), system.g(0.0, qm))
        expect("objective:g", e, t_)
    e, t_ = rel(system.h(0.0, q, u0), system.h(0.0, qt, u0))
    expect("translation_invariant:h", e, t_)
    if system.nla_c:
        e, t_ = rel(D(system.W_c(0.0, q)) @ la_c, D(system.W_c(0.0, qt)) @ la_c)
        expect("translation_invariant:W_c", e, t_)

    # ---- zero resultant --------------------------------------------------------------------------
    def resultant(f):
        f = np.asarray(f, dtype=float)
        return f[: 3 * n].reshape(3, n).sum(axis=1), float(np.max(np.abs(f))) if f.size else 0.0

    for name, f in (("h", system.h(0.0, qm, u0)),
                    ("W_c_la_c", D(system.W_c(0.0, qm)) @ la_c if system.nla_c else None),
                    ("W_g_la_g", D(system.W_g(0.0, qm)) @ la_g if system.nla_g else None)):
        if f is None:
            continue
        r, s = resultant(f)
        expect(f"zero_resultant:{name}", float(np.max(np.abs(r))), 1e-10 * (s + kmax * 1e-3))

    ang = float(np.linalg.norm(spec["psi"]))
    res.nontrivial = rs["ref"] == "helix" and ang > 0.1
    res.label(site, f"degree={rs['degree']}", f"ref:{rs['ref']}", rs["material"])
    return res
