"""C19 RATTLE is second order, drift-free and reversible on conservative systems."""

import numpy as np
from hypothesis import strategies as st

from harness import gen, dynbuild, sysbuild
from harness.runner import Result

PROPERTY = "C19"
LEVEL = "exploration"
RULE = (
    "case = conservative constrained system without contacts (point-mass chain with FixedDistance constraints, or "
    "1-2 rigid bodies with Revolute/Spherical joints; gravity, optional force-form spring with explicit reference "
    "length and k <= 20) with a consistent random initial state x step size dt in [4e-3, 8e-3] and "
    "horizon (steps - frac) dt with frac in {0, 0.3, 0.5, 0.9} (the solver must take `steps` uniform steps); three runs per "
    "case: a long run (8-10 s, several swing periods) for the drift clause, whose first 300..500 steps are compared "
    "with a run at dt/2 (order clause) and retraced by a reversed run. Non-trivial: the system is constrained and kinetic "
    "and potential energy exchange more than 10% of the initial kinetic+|potential| scale."
)
ASSUMPTIONS = [
    "Newton tolerance 1e-12; total energy = 1/2 u^T M u + System.E_pot (gravity is a constant Force, springs in force form)",
    "order: max|E-E0| with dt divided by that with dt/2 lies in [3.0, 5.5], asserted only if the coarse error exceeds "
    "1e-7*(1+|E0|) (above solver noise); a first-order scheme gives ~2",
    "no secular growth: least-squares line through E(t)-E0 over the 8-10 s run; |slope|*T <= 4 x the standard deviation "
    "of the residual + 1e-9*(1+|E0|+max T); asserted only when the motion is recurrent on that horizon (the kinetic "
    "energy has at least two interior maxima in the first two thirds and reaches no new extreme afterwards), because "
    "the energy error of a symplectic scheme is a bounded function of the state, not of time; for chaotic mechanisms "
    "(two or more links, spherical joints) the trend must in addition exceed 1e-2*(1+|E0|+max T), because their "
    "bounded slow modulations are indistinguishable from a trend on this horizon",
    "reversibility: the forward end state with reversed velocities is written into system.q0/u0 (no re-assembly, the "
    "systems are autonomous) and integrated the same number of steps; the distance to (q0, -u0) must stay below "
    "1e-5*(1+|state|) (Newton noise times the flow's error amplification is < 1e-7 for these horizons)",
]
CASES = {"quick": 16, "thorough": 400}
SHARDS = {"quick": 16, "thorough": 16}
TECHNIQUE = "generated conservative constrained systems; metamorphic relations (step halving, time reversal) and an invariant over the trajectory (bounded energy error)"
LEVEL_TEXT = (
    "Generated-input search with metamorphic oracles: halving the step must divide the energy error by about four, "
    "reversing the velocities must retrace the trajectory, and the energy error must stay bounded. Sampling."
)
LEVEL_NOTE = "trusted: System.M / E_pot; the harness's energy bookkeeping"


@st.composite
def _case(draw):
    mech = draw(dynbuild.mechanism(closed_loops=False, conservative=True, max_bodies=2))
    if "spring" not in mech and mech["kind"] == "chain" and draw(st.integers(0, 3)):
        # the few long runs of the quick tier: most chains carry a translational spring
        mech["spring"] = {"k": draw(gen.f(5, 20)), "l_ref": draw(gen.f(0.5, 2.0)),
                          "B2": draw(gen.vec3(-2, -0.7)) if draw(st.integers(0, 3)) else [0.0, 0.0, 0.0],
                          "compliance": False, "B1_body": None, "d": 0.0}
    if "spring" in mech:
        mech["spring"]["k"] = min(mech["spring"]["k"], 20.0)
        mech["spring"]["d"] = 0.0
        # force form and compliance form equally often (the few long runs of the quick tier must contain both)
        mech["spring"]["compliance"] = draw(st.booleans())
    if "spring" in mech and mech["kind"] == "chain" and draw(st.integers(0, 3)) == 0:
        # spring and last joint attached at the same body-fixed point (the centre of mass)
        mech["spring"]["B2"] = [0.0, 0.0, 0.0]
        mech["spring"]["compliance"] = False
        mech["joints"][-1]["r_OJ0"] = list(mech["bodies"][-1]["r"])
    for b in mech["bodies"]:
        b["mass"] = max(b["mass"], 0.5)
    return {"mech": mech, "dt": draw(gen.f(4e-3, 8e-3)), "nsteps": draw(st.integers(300, 500)), "T_long": draw(gen.f(8.0, 10.0)),
            # the horizon is (steps - frac) * dt: generally not a multiple of the step size
            "frac": draw(st.sampled_from([0.0, 0.0, 0.3, 0.5, 0.9]))}


def strategy(tier):
    return _case()


def _energy(system, sol):
    M = sysbuild.dense(system.M(system.t0, system.q0))
    t, q, u = np.asarray(sol.t), np.asarray(sol.q), np.asarray(sol.u)
    T = np.array([0.5 * u[k] @ M @ u[k] for k in range(len(t))])
    # revisit the stored states backwards from the final one (the revolute joints' angle tracking is at the final state
    # after the run; a jump back to t0 would be taken for full rotations of a joint that carries a torsional spring)
    V = np.array([system.E_pot(t[k], q[k]) for k in reversed(range(len(t)))])[::-1]
    return T, V


def check(spec):
    res = Result()
    site = "Rattle"
    opts = dynbuild.options(newton_atol=1e-12, newton_rtol=1e-12, newton_max_iter=60)
    mech = spec["mech"]
    feats = {"mech": mech["kind"]}
    dt, n = spec["dt"], spec["nsteps"]

    def run(h, steps, state=None):
        system, _ = dynbuild.build_mechanism(mech, opts=opts)
        if state is not None:
            if len(state) > 2:
                # the revolute joints track their angle statefully (increments below a quarter turn, C25): lead the
                # fresh system along the forward trajectory to the state from which the reversed run starts, so that
                # a torsional spring sees the same accumulated angle as at the end of the forward run
                for tk, qk, uk in state[2]:
                    system.h(tk, qk, uk)
                    if system.nla_c:
                        system.la_c(tk, qk, uk)
            system.q0, system.u0 = state[0].copy(), state[1].copy()
            system.q_dot0 = system.q_dot(system.t0, system.q0, system.u0)
        sol, wrn = dynbuild.run("Rattle", system, system.t0 + (steps - spec.get("frac", 0.0)) * h, h, opts=opts)
        return system, sol

    n_long = int(np.ceil(spec.get("T_long", 8.0) / dt))
    try:
        sysl, soll = run(dt, n_long)
        sysf, solf = run(dt / 2, 2 * n)
    except RuntimeError as e:
        if "not converged" in str(e):
            res.inconclusive += 1
            res.label("solver_raised_not_converged")
            return res
        raise
    Tl, Vl = _energy(sysl, soll)
    Tf, Vf = _energy(sysf, solf)
    El, Ef = Tl + Vl, Tf + Vf
    sysc, Tc, Ec = sysl, Tl[: n + 1], El[: n + 1]
    E0 = Ec[0]
    sc = 1.0 + abs(E0) + float(np.max(Tl))
    errc = float(np.max(np.abs(Ec - E0)))
    errf = float(np.max(np.abs(Ef - Ef[0])))
    res.ok()
    if errc > 1e-7 * sc and errf > 0:
        ratio = errc / errf
        if not (3.0 <= ratio <= 5.5):
            res.fail("second_order_energy_error", site, ratio, feats, f"err(dt)={errc:.3e} err(dt/2)={errf:.3e} ratio={ratio:.2f}")
        res.label("order_clause_asserted")
    else:
        res.label("order_clause_below_noise")
    # ---- no secular growth over a long horizon (>= 8 s, several swing periods) ----------------------
    # The energy error of a symplectic scheme is dt^2 times a bounded function of the *state* (backward error
    # analysis), so it oscillates with the motion, whereas a defect shows as a trend in time. Oracle: least-squares
    # line through E(t)-E0 over the long run; the trend over the horizon must not exceed four standard deviations of
    # the oscillation about that line. (Comparing maxima of early and late windows, the first version of this clause,
    # raised false alarms at seeds 1/2: chaotic chains have error spikes of varying height, and a pendulum on its
    # first slow swing has not visited its states yet; it also missed a seeded drift of 1.9x.) The clause is asserted
    # only when the motion is recurrent on the horizon: at least two interior maxima of the kinetic energy in the first
    # two thirds and no new extreme afterwards.
    cut = (2 * len(El)) // 3
    Ta, Tb = Tl[:cut], Tl[cut:]
    peaks = int(np.sum((Ta[1:-1] > Ta[:-2]) & (Ta[1:-1] >= Ta[2:]) & (Ta[1:-1] > 0.5 * np.max(Ta))))
    recurrent = peaks >= 2 and np.max(Tb) <= 1.05 * np.max(Ta) and np.min(Tb) >= np.min(Ta) - 0.05 * np.max(Ta)
    # Regular motion (one degree of freedom: a body on a revolute joint; or the integrable spherical pendulum): the
    # energy error is (quasi-)periodic and the regression oracle is sharp. Chains with two or more links and bodies on
    # spherical joints are chaotic; there the error of the unchanged scheme shows slow bounded modulations that look
    # like a trend on a 10 s window (seeds 4 and 6: trend 6.7x the oscillation, saturating by t = 25 s on a 40 s
    # run), so only a gross drift (also above 1e-2 of the energy scale, ~30x the largest modulation observed) is
    # asserted for them.
    njoint = len(mech.get("joints", []))
    regular = (mech["kind"] == "point_pendulum" and len(mech["bodies"]) == 1) or (
        mech["kind"] == "chain" and njoint == 1 and mech["joints"][0]["type"] == "Revolute")
    if not recurrent:
        res.label("drift_clause_not_asserted_motion_not_recurrent")
    else:
        tt = np.asarray(soll.t) - soll.t[0]
        e = El - E0
        A = np.vstack([np.ones_like(tt), tt]).T
        coef = np.linalg.lstsq(A, e, rcond=None)[0]
        trend = abs(float(coef[1] * tt[-1]))
        osc = float(np.std(e - A @ coef))
        res.ok()
        res.label("drift_clause_asserted:" + ("regular_motion" if regular else "chaotic_motion_gross_drift_only"))
        if trend > 4.0 * osc + 1e-9 * sc and (regular or trend > 1e-2 * sc):
            res.fail("no_secular_energy_growth", site, trend / (osc + 1e-300), feats,
                     f"energy trend over the run {trend:.3e}, oscillation about it {osc:.3e} (std), scale {sc:.3e}, {n_long} steps")
    # ---- reversibility --------------------------------------------------------------------------
    qN, uN = np.asarray(soll.q)[n], np.asarray(soll.u)[n]
    try:
        path = list(zip(np.asarray(soll.t)[: n + 1], np.asarray(soll.q)[: n + 1], np.asarray(soll.u)[: n + 1]))
        sysr, solr = run(dt, n, state=(qN, -uN, path))
    except RuntimeError as e:
        if "not converged" in str(e):
            res.inconclusive += 1
            return res
        raise
    q0, u0 = np.asarray(soll.q)[0], np.asarray(soll.u)[0]
    qr, ur = np.asarray(solr.q)[-1], np.asarray(solr.u)[-1]
    # quaternions q and -q describe the same orientation: compare up to sign per body
    dq = qr - q0
    for sl in sysbuild.quat_slices(sysc):
        if np.linalg.norm(qr[sl] + q0[sl]) < np.linalg.norm(qr[sl] - q0[sl]):
            dq[sl] = qr[sl] + q0[sl]
    err = max(float(np.max(np.abs(dq))), float(np.max(np.abs(ur + u0))))
    scale = 1.0 + float(np.max(np.abs(q0))) + float(np.max(np.abs(np.asarray(soll.u))))
    res.ok()
    if err > 1e-5 * scale:
        res.fail("reversible", site, err, feats, f"distance to the reversed initial state {err:.3e}")
    exchange = float(np.max(Tl) - np.min(Tl))
    res.nontrivial = sysc.nla_g > 0 and exchange > 0.1 * (float(np.max(Tl)) + 1e-12)
    res.label(f"mech:{mech['kind']}", "spring" if "spring" in mech else "no_spring")
    return res
