"""C27 Contact proximal maps are exact projections."""

import numpy as np
from hypothesis import strategies as st

from harness import gen
from harness.numdiff import jacobian, compare
from harness.runner import Result

PROPERTY = "C27"
LEVEL = "exploration"
RULE = (
    "case = dimension 1..4, points x, x2 and a feasible comparison point built by construction, with component "
    "magnitudes log-uniform in [1e-30,1e30] (zeros and mixed signs included), friction coefficient r in (0,10], "
    "normal force z (scalar or 1-array; positive, zero or negative), rho in [1e-3,1e3], a state (x,y,z) for the "
    "implicit residual kept 1e-3 (relative) away from the active-set boundary and from z=0, and an SPD mass "
    "matrix (dense or sparse, condition up to 1e6) with a full-column-rank W. Non-trivial: x outside the set and "
    "dimension >= 2."
)
ASSUMPTIONS = [
    "feasibility / non-expansiveness are asserted with a relative slack of 8 eps",
    "projection inequality (x-P(x)).(c-P(x)) <= 64 eps |x-P(x)| (|c|+|P(x)|) for feasible c constructed by scaling",
    "residual Jacobian: Richardson differences with the active set frozen at its value at the base point (the "
    "routine receives it as an argument); states closer than 1e-3 (relative) to the boundary ||rho x - y|| = r z "
    "or to z = 0 are not generated",
    "prox parameter compared with a dense reference alpha / diag(W^T M^-1 W) to 1e-8 relative",
]
CASES = {"quick": 6000, "thorough": 400000}
SHARDS = {"quick": 4, "thorough": 16}
TECHNIQUE = "generated vectors over 60 decades; projection characterisation (feasible, idempotent, non-expansive, variational inequality), differenced residual Jacobian, dense reference"
LEVEL_TEXT = (
    "Generated-input search with the mathematical characterisation of a Euclidean projection as oracle (no "
    "reference implementation needed), magnitudes over 60 decades, all sign patterns of the normal force, both "
    "active-set branches. Sampling, not proof."
)
LEVEL_NOTE = "trusted: numpy; the characterisation theorem of projections onto closed convex sets"

EPS = 2.3e-16


@st.composite
def _wide_vec(draw, n):
    out = []
    common = draw(gen.f(-30, 30))
    for _ in range(n):
        k = draw(st.sampled_from(["wide", "common", "common", "zero", "unit"]))
        sgn = draw(st.sampled_from([1.0, -1.0]))
        if k == "zero":
            out.append(0.0)
        elif k == "unit":
            out.append(sgn * draw(gen.f(0.1, 10)))
        elif k == "common":
            out.append(sgn * 10.0**common * draw(gen.f(0.1, 10)))
        else:
            out.append(sgn * 10.0 ** draw(gen.f(-30, 30)))
    return out


@st.composite
def _case(draw):
    n = draw(st.integers(1, 4))
    zk = draw(st.sampled_from(["pos", "pos", "neg", "zero"]))
    zmag = 10.0 ** draw(gen.f(-6, 6))
    z = zmag if zk == "pos" else (-zmag if zk == "neg" else 0.0)
    spec = {
        "n": n,
        "x": draw(_wide_vec(n)),
        "x2": draw(_wide_vec(n)),
        "cdir": draw(_wide_vec(n)),
        "cfrac": draw(gen.f(0.0, 1.0)),
        "r": draw(gen.f(1e-3, 10.0)),
        "z": z,
        "z_as_array": draw(st.booleans()),
        "rho": draw(gen.log_uniform(-3, 3)),
    }
    # residual state: moderate magnitudes so that differencing is meaningful
    spec["jx"] = [draw(gen.f(-3, 3)) for _ in range(n)]
    spec["jy"] = [draw(gen.f(-3, 3)) for _ in range(n)]
    spec["jz"] = draw(gen.f(0.05, 3.0)) * draw(st.sampled_from([1.0, 1.0, -1.0]))
    spec["jrho"] = draw(gen.f(0.1, 5.0))
    # prox parameter
    nu = draw(st.integers(1, 6))
    k = draw(st.integers(0, nu))
    d = [10.0 ** draw(gen.f(-3, 3)) for _ in range(nu)]
    spec["M"] = {"d": d, "psi": [draw(gen.f(-1, 1)) for _ in range(nu * nu)], "sparse": draw(st.booleans())}
    spec["W"] = [[draw(gen.f(-2, 2)) for _ in range(k)] for _ in range(nu)]
    spec["alpha"] = draw(gen.f(0.05, 1.95))
    # W as an integer-typed matrix of force directions (selection / incidence columns with entries in -2..2)
    spec["W_int"] = draw(st.integers(0, 3)) == 0
    return spec


def strategy(tier):
    return _case()


def check(spec):
    from cardillo.math.prox import NegativeOrthant, Sphere, estimate_prox_parameter
    from scipy.sparse import csc_array

    res = Result()
    n = spec["n"]
    x = np.array(spec["x"], dtype=float)
    x2 = np.array(spec["x2"], dtype=float)
    feats = {"n": n, "zsign": float(np.sign(spec["z"]))}

    def expect(sub, site, ok, mag=None, detail=None):
        res.ok()
        if not ok:
            res.fail(sub, site, mag, feats, detail)

    # ---------------- negative orthant --------------------------------------------------
    P = NegativeOrthant.prox(x)
    P2 = NegativeOrthant.prox(x2)
    site = "NegativeOrthant.prox"
    expect("feasible", site, bool(np.all(P <= 0)) and P.shape == x.shape)
    expect("idempotent", site, np.array_equal(NegativeOrthant.prox(P), P))
    dP, dx = float(np.linalg.norm(P - P2)), float(np.linalg.norm(x - x2))
    expect("nonexpansive", site, dP <= dx * (1 + 8 * EPS), dP - dx)
    c = -np.abs(np.array(spec["cdir"], dtype=float))
    lhs = float((x - P) @ (c - P))
    expect("projection_inequality", site, lhs <= 64 * EPS * np.linalg.norm(x - P) * (np.linalg.norm(c) + np.linalg.norm(P)) + 0.0, lhs)
    expect("fixes_feasible_points", site, np.array_equal(NegativeOrthant.prox(c), c))
    # implicit function pieces
    rho = spec["rho"]
    act = NegativeOrthant.active_set(x, x2, rho)
    R = NegativeOrthant.residual(x, x2, act)
    expect("residual_is_y_plus_prox_on_inactive", "NegativeOrthant.residual",
           np.array_equal(R[~act], (x2 + NegativeOrthant.prox(rho * x - x2))[~act]) and np.array_equal(R[act], x[act]))
    Jg, Jh = NegativeOrthant.Jacobian(act)
    expect("jacobian", "NegativeOrthant.Jacobian",
           np.array_equal(Jg.toarray(), np.diag(act.astype(float))) and np.array_equal(Jh.toarray(), np.diag((~act).astype(float))))

    # ---------------- scaled ball ----------------------------------------------------------
    r = spec["r"]
    zval = spec["z"]
    z = np.array([zval]) if spec["z_as_array"] else zval
    S = Sphere(r)
    radius = max(0.0, r * zval)
    site = "Sphere.prox"
    P = np.asarray(S.prox(x, z), dtype=float).reshape(-1)
    P2 = np.asarray(S.prox(x2, z), dtype=float).reshape(-1)
    nP = float(np.linalg.norm(P))
    expect("feasible", site, P.shape == x.shape and nP <= radius * (1 + 8 * EPS), nP - radius)
    PP = np.asarray(S.prox(P, z), dtype=float).reshape(-1)
    expect("idempotent", site, float(np.linalg.norm(PP - P)) <= 8 * EPS * (nP + 0.0), float(np.linalg.norm(PP - P)))
    dP, dx = float(np.linalg.norm(P - P2)), float(np.linalg.norm(x - x2))
    expect("nonexpansive", site, dP <= dx * (1 + 8 * EPS) + 8 * EPS * radius, dP - dx)
    if zval <= 0:
        expect("degenerate_ball", site, bool(np.all(P == 0)), nP)
    cd = np.array(spec["cdir"], dtype=float)
    ncd = float(np.linalg.norm(cd))
    c = (cd / ncd) * radius * spec["cfrac"] * (1 - 1e-12) if ncd > 0 else np.zeros(n)
    lhs = float((x - P) @ (c - P))
    expect("projection_inequality", site, lhs <= 64 * EPS * np.linalg.norm(x - P) * (np.linalg.norm(c) + nP), lhs)
    expect("fixes_feasible_points", site, float(np.linalg.norm(np.asarray(S.prox(c, z)).reshape(-1) - c)) <= 0.0)
    outside = float(np.linalg.norm(x)) > radius

    # residual / Jacobian away from the boundary
    jx = np.array(spec["jx"], dtype=float)
    jy = np.array(spec["jy"], dtype=float)
    jz = float(spec["jz"])
    jrho = float(spec["jrho"])
    arg = jrho * jx - jy
    narg = float(np.linalg.norm(arg))
    rad = max(0.0, r * jz)
    scale = narg + rad + 1e-300
    if abs(narg - rad) > 1e-2 * scale and narg > 1e-2:
        zz = np.array([jz])
        act = S.active_set(jx, jy, zz, jrho)
        want_act = narg <= rad
        expect("active_set", "Sphere.active_set", bool(act) == want_act)
        Rv = np.asarray(S.residual(jx, jy, zz, jrho, act), dtype=float).reshape(-1)
        if not act:
            ref = jy + np.asarray(S.prox(arg, zz), dtype=float).reshape(-1)
            expect("residual_is_y_plus_prox_on_inactive", "Sphere.residual", float(np.linalg.norm(Rv - ref)) <= 1e-12 * (1 + scale))
        else:
            expect("residual_is_x_on_active", "Sphere.residual", np.array_equal(Rv, jx))
        Jx, Jy, Jz = S.Jacobian(jx, jy, zz, jrho, act)
        fj = dict(feats, active=bool(act), zsign_state=float(np.sign(jz)))
        h = 1e-4
        num, dis = jacobian(lambda v: np.asarray(S.residual(v, jy, zz, jrho, act), dtype=float).reshape(-1), jx, h)
        compare(res, "jacobian", "Sphere.Jacobian:Jx", Jx, num, dis, fj, tol=1e-6)
        num, dis = jacobian(lambda v: np.asarray(S.residual(jx, v, zz, jrho, act), dtype=float).reshape(-1), jy, h)
        compare(res, "jacobian", "Sphere.Jacobian:Jy", Jy, num, dis, fj, tol=1e-6)
        hz = 1e-3 * abs(jz)
        num, dis = jacobian(lambda v: np.asarray(S.residual(jx, jy, v, jrho, act), dtype=float).reshape(-1), zz, hz)
        compare(res, "jacobian", "Sphere.Jacobian:Jz", Jz, num, dis, fj, tol=1e-6)
        res.label("residual:" + ("active" if act else "inactive") + (",z>0" if jz > 0 else ",z<0"))

    # ---------------- prox parameter ------------------------------------------------------
    Ms = spec["M"]
    nu = len(Ms["d"])
    Q, _ = np.linalg.qr(np.array(Ms["psi"], dtype=float).reshape(nu, nu) + 3 * np.eye(nu))
    M = Q @ np.diag(Ms["d"]) @ Q.T
    M = 0.5 * (M + M.T)
    W = np.array(spec["W"], dtype=float).reshape(nu, -1)
    W_arg = W
    if spec.get("W_int"):
        W_arg = np.round(W).astype(int)
        W = W_arg.astype(float)
    k = W.shape[1]
    fullrank = k == 0 or np.linalg.matrix_rank(W) == k and np.linalg.svd(W, compute_uv=False)[-1] > 1e-3
    if fullrank:
        got = np.asarray(estimate_prox_parameter(spec["alpha"], csc_array(W_arg) if Ms["sparse"] else W_arg,
                                                 csc_array(M) if Ms["sparse"] else M), dtype=float)
        site = "estimate_prox_parameter"
        expect("prox_parameter_shape", site, got.shape == (k,))
        if got.shape == (k,):
            expect("prox_parameter_positive_finite", site, bool(np.all(np.isfinite(got)) and np.all(got > 0)))
            if k > 0:
                ref = spec["alpha"] / np.diag(W.T @ np.linalg.solve(M, W))
                rel = float(np.max(np.abs(got - ref) / ref))
                expect("prox_parameter_matches_reference", site, rel <= 1e-8 * max(Ms["d"]) / min(Ms["d"]) ** 0 * 1.0 + 1e-6, rel)
        res.label("prox_param:k=0" if k == 0 else "prox_param:k>0", "prox_param:W_int" if spec.get("W_int") else "prox_param:W_float")

    res.nontrivial = outside and n >= 2
    res.label(f"dim={n}", "z>0" if zval > 0 else ("z=0" if zval == 0 else "z<0"))
    if outside:
        res.label("x_outside_ball")
    return res
