"""C15 Sparse COO assembly accumulates exactly.

Model-based history check: a generated sequence of block writes is applied to a CooMatrix
and to a dense reference (np.add.at); after every write all conversions are compared.
Values are dyadic rationals (k/8) so that sums are exact in every summation order and the
comparison can be exact.
"""

import numpy as np
from hypothesis import strategies as st

from harness.runner import Result

PROPERTY = "C15"
LEVEL = "exploration"
RULE = (
    "history = shape (0..8)x(0..8) + 0..40 writes; each write has a row key and a column key drawn "
    "from {int, list, ndarray, range, slice (None bounds, negative steps)} with repeated/overlapping "
    "indices, and a value drawn from {dense 2-D, scalar, 1-D row, scipy coo/csr/csc array (with "
    "duplicate entries), nested CooMatrix (itself a generated history), None, wrongly shaped block}. "
    "Non-trivial: at least two writes touch a common matrix entry and at least two different value "
    "kinds occur. Distinct = hash of the canonical history."
)
ASSUMPTIONS = [
    "indices are non-negative and inside the matrix (the container stores unsigned ints; every caller in "
    "cardillo passes DOF arrays)",
    "values are dyadic rationals so that the dense reference sum is exact in any order; comparison is exact",
    "'rejected' = the write raises and leaves the container's converted matrix unchanged",
]
CASES = {"quick": 3000, "thorough": 60000}
SHARDS = {"quick": 4, "thorough": 16}

_val = st.integers(-64, 64).map(lambda k: k / 8.0)


def _key(draw, n):
    kinds = ["list", "array", "range", "slice"] + (["int", "int"] if n > 0 else [])
    k = draw(st.sampled_from(kinds))
    if k == "int":
        return {"k": "int", "v": draw(st.integers(0, n - 1))}
    if k in ("list", "array"):
        if n == 0:
            return {"k": k, "v": []}
        return {"k": k, "v": draw(st.lists(st.integers(0, n - 1), max_size=5))}
    if k == "range":
        a = draw(st.integers(0, n))
        b = draw(st.integers(0, n))
        s = draw(st.sampled_from([1, 1, 2, 3, -1, -2]))
        if s < 0:
            # range counting down must stay >= 0
            a, b = max(a, b), min(a, b) - 1
            if b < -1:
                b = -1
            a = min(a, n - 1) if n > 0 else 0
            if n == 0:
                return {"k": "range", "v": [0, 0, 1]}
        return {"k": "range", "v": [a, b, s]}
    # slice
    b = st.one_of(st.none(), st.integers(-n - 1, n + 1))
    return {
        "k": "slice",
        "v": [draw(b), draw(b), draw(st.sampled_from([None, None, 1, 2, 3, -1, -2]))],
    }


def _mk_key(k):
    if k["k"] == "int":
        return k["v"]
    if k["k"] == "list":
        return list(k["v"])
    if k["k"] == "array":
        return np.array(k["v"], dtype=int)
    if k["k"] == "range":
        return range(*k["v"])
    return slice(*k["v"])


def _indices(k, n):
    """Reference meaning of a key: the list of addressed indices (independent of the code)."""
    if k["k"] == "int":
        return [k["v"]]
    if k["k"] in ("list", "array"):
        return list(k["v"])
    if k["k"] == "range":
        return list(range(*k["v"]))
    return list(range(n))[slice(*k["v"])]


@st.composite
def _op(draw, m, n, depth):
    rk = _key(draw, m)
    ck = _key(draw, n)
    r = len(_indices(rk, m))
    c = len(_indices(ck, n))
    kinds = ["dense", "dense", "coo", "csr", "csc", "none", "bad"]
    if rk["k"] == "int" and ck["k"] == "int":
        kinds += ["scalar", "scalar"]
    if rk["k"] == "int":
        kinds += ["vec"]
    if depth > 0:
        kinds += ["nested"]
    vk = draw(st.sampled_from(kinds))
    v = {"k": vk}
    if vk == "dense":
        v["v"] = [[draw(_val) for _ in range(c)] for _ in range(r)]
    elif vk == "scalar":
        v["v"] = draw(_val)
    elif vk == "vec":
        v["v"] = [draw(_val) for _ in range(c)]
    elif vk in ("coo", "csr", "csc"):
        if r == 0 or c == 0:
            v["v"] = []
        else:
            v["v"] = draw(
                st.lists(
                    st.tuples(st.integers(0, r - 1), st.integers(0, c - 1), _val).map(list),
                    max_size=6,
                )
            )
    elif vk == "nested":
        v["v"] = draw(_history(depth - 1, shape=(r, c), max_ops=4))
    if vk in ("dense", "coo", "csr", "csc"):
        # element type of the block: float64, or (values rounded) an integer / single-precision / boolean block such as an
        # incidence or selection matrix
        v["dtype"] = draw(st.sampled_from(["float64", "float64", "float64", "int64", "float32", "bool", "int32"]))
    if vk == "bad":
        dr, dc = draw(st.sampled_from([(1, 0), (0, 1), (1, 1), (-1, 0), (0, -1), (2, 3)]))
        rr, cc = max(0, r + dr), max(0, c + dc)
        if (rr, cc) == (r, c):
            rr, cc = r + 1, c
        v["shape"] = [rr, cc]
        v["as"] = draw(st.sampled_from(["dense", "coo", "csr", "nested"]))
    return {"r": rk, "c": ck, "v": v}


@st.composite
def _history(draw, depth, shape=None, max_ops=40):
    if shape is None:
        m = draw(st.integers(0, 8))
        n = draw(st.integers(0, 8))
    else:
        m, n = shape
    ops = draw(st.lists(_op(m, n, depth), max_size=max_ops))
    out = {"shape": [m, n], "ops": ops}
    if shape is None:
        # all written values times 2^e: ordinary magnitudes, or tiny ones (1e-14 ... 1e-18: masses and compliances of
        # micro-scale models); powers of two keep every sum exact
        out["scale_exp"] = draw(st.sampled_from([0, 0, 0, -45, -60]))
    return out


def strategy(tier):
    return _history(2)


def static_cases(tier):
    return [
        {"shape": [0, 0], "ops": []},
        {"shape": [3, 0], "ops": []},
        {
            "shape": [2, 2],
            "ops": [
                {"r": {"k": "int", "v": 0}, "c": {"k": "int", "v": 0}, "v": {"k": "scalar", "v": 1.5}},
                {"r": {"k": "slice", "v": [None, None, None]}, "c": {"k": "list", "v": [0, 0]},
                 "v": {"k": "dense", "v": [[1.0, 2.0], [3.0, 4.0]]}},
            ],
        },
    ]


_SCALE = [1.0]


def _build(hist, stats):
    """Apply a history to a fresh CooMatrix and to the dense model. Returns (coo, model, failures)."""
    from cardillo.utility.coo_matrix import CooMatrix
    from scipy.sparse import coo_array, csr_array, csc_array

    m, n = hist["shape"]
    if "scale_exp" in hist:
        _SCALE[0] = 2.0 ** hist["scale_exp"]
    sc = _SCALE[0]
    coo = CooMatrix((m, n))
    model = np.zeros((m, n))
    touched = np.zeros((m, n), dtype=int)
    fails = []
    for i, op in enumerate(hist["ops"]):
        ri = _indices(op["r"], m)
        ci = _indices(op["c"], n)
        r, c = len(ri), len(ci)
        v = op["v"]
        kind = v["k"]
        stats["kinds"].add(kind)
        block = None
        if kind == "none":
            value = None
        elif kind == "dense":
            block = np.array(v["v"], dtype=float).reshape(r, c) * sc
            dt = v.get("dtype", "float64") if sc == 1.0 else "float64"
            if dt != "float64":
                typed = (np.round(block) > 0) if dt == "bool" else np.round(block).astype(dt)
                block = typed.astype(float)
                value = typed
            else:
                # alternate between ndarray and nested-list values
                value = [list(row) for row in block.tolist()] if (i % 2 == 0 and r * c > 0) else block.copy()
        elif kind == "scalar":
            block = np.array([[v["v"] * sc]])
            value = v["v"] * sc
        elif kind == "vec":
            block = np.array(v["v"], dtype=float).reshape(1, c) * sc
            value = np.array(v["v"], dtype=float) * sc
        elif kind in ("coo", "csr", "csc"):
            block = np.zeros((r, c))
            ent = v["v"]
            dt = v.get("dtype", "float64") if sc == 1.0 else "float64"
            rows = np.array([e[0] for e in ent], dtype=int)
            cols = np.array([e[1] for e in ent], dtype=int)
            data = np.array([e[2] for e in ent], dtype=float) * sc
            if dt != "float64":
                data = (np.round(data) > 0) if dt == "bool" else np.round(data).astype(dt)
            value = coo_array((data, (rows, cols)), shape=(r, c))
            if dt == "bool":
                # duplicates of a boolean block are or-ed by scipy on conversion; keep one entry per position
                keep = {}
                for a, b, x in zip(rows, cols, data):
                    keep[(int(a), int(b))] = bool(x) or keep.get((int(a), int(b)), False)
                rows = np.array([k[0] for k in keep], dtype=int)
                cols = np.array([k[1] for k in keep], dtype=int)
                data = np.array(list(keep.values()), dtype=bool)
                value = coo_array((data, (rows, cols)), shape=(r, c))
            for a, b, x in zip(rows, cols, data):
                block[a, b] += float(x)
            if kind == "csr":
                value = csr_array(value)
            elif kind == "csc":
                value = csc_array(value)
        elif kind == "nested":
            value, block, sub = _build(v["v"], stats)
            fails.extend(sub)
        elif kind == "bad":
            rr, cc = v["shape"]
            if v["as"] == "dense":
                value = np.ones((rr, cc))
            elif v["as"] == "coo":
                value = coo_array(np.ones((rr, cc)))
            elif v["as"] == "csr":
                value = csr_array(np.ones((rr, cc)))
            else:
                value = CooMatrix((rr, cc))
                if rr * cc > 0:
                    value[0, 0] = 1.0
            before = coo.toarray().copy()
            raised = False
            try:
                coo[_mk_key(op["r"]), _mk_key(op["c"])] = value
            except Exception:
                raised = True
            stats["bad"] += 1
            if not raised:
                fails.append(("inconsistent_write_rejected", f"value={v['as']}", None,
                              f"op {i}: block {rr}x{cc} accepted for key {r}x{c}"))
                # resynchronise the model is impossible; stop this history here
                return coo, model, fails
            if not np.array_equal(coo.toarray(), before):
                fails.append(("rejected_write_leaves_container_unchanged", f"value={v['as']}", None, f"op {i}"))
                return coo, model, fails
            continue
        coo[_mk_key(op["r"]), _mk_key(op["c"])] = value
        if block is not None and r * c > 0:
            np.add.at(model, (np.array(ri, dtype=int)[:, None], np.array(ci, dtype=int)[None, :]), block)
            np.add.at(touched, (np.array(ri, dtype=int)[:, None], np.array(ci, dtype=int)[None, :]),
                      (block != 0).astype(int))
        # compare all conversions after every write
        site = f"value={kind}"
        for fmt, get in (
            ("toarray", lambda: coo.toarray()),
            ("tocsr", lambda: coo.tocsr().toarray()),
            ("tocsc", lambda: coo.tocsc().toarray()),
            ("tocoo", lambda: coo.tocoo().toarray()),
        ):
            got = get()
            stats["compared"] += 1
            if got.shape != model.shape or not np.array_equal(got, model):
                mag = float(np.max(np.abs(got - model))) if got.shape == model.shape else None
                fails.append((f"conversion_equals_dense_sum:{fmt}", site, mag,
                              f"op {i} keys {op['r']['k']}/{op['c']['k']}"))
                return coo, model, fails
    stats["overlap"] = stats["overlap"] or bool((touched >= 2).any())
    return coo, model, fails


def check(spec):
    from scipy.sparse import csr_array, csc_array, coo_array

    res = Result()
    stats = {"kinds": set(), "bad": 0, "compared": 0, "overlap": False}
    _SCALE[0] = 1.0
    coo, model, fails = _build(spec, stats)
    for sub, site, mag, detail in fails:
        res.fail(sub, site, mag, {}, detail)
    res.ok(stats["compared"] + stats["bad"])
    if not fails:
        # asformat
        for fmt, typ in (("csr", csr_array), ("csc", csc_array), ("coo", coo_array), ("array", np.ndarray)):
            for copy in (False, True):
                got = coo.asformat(fmt, copy=copy)
                res.ok()
                if not isinstance(got, typ):
                    res.fail("asformat_type", fmt, None, {}, type(got).__name__)
                    continue
                dense = got if fmt == "array" else got.toarray()
                if not np.array_equal(dense, model):
                    res.fail("conversion_equals_dense_sum:asformat", fmt, float(np.max(np.abs(dense - model))))
        try:
            coo.asformat("nonsense")
            res.fail("unknown_format_raises_ValueError", "asformat", None, {}, "no exception")
        except ValueError:
            res.ok()
        # shape is reported
        if tuple(coo.shape) != tuple(spec["shape"]):
            res.fail("shape", "CooMatrix.shape")
    real = stats["kinds"] - {"none", "bad"}
    res.nontrivial = bool(stats["overlap"] and len(real) >= 2)
    for k in stats["kinds"]:
        res.label(f"value:{k}")
    if stats["overlap"]:
        res.label("overlapping_writes")
    res.label(f"writes:{min(40, (len(spec['ops']) // 10) * 10)}+")
    keykinds = {op["r"]["k"] for op in spec["ops"]} | {op["c"]["k"] for op in spec["ops"]}
    for k in keykinds:
        res.label(f"key:{k}")
    return res

TECHNIQUE = "model-based generated write histories (Hypothesis) vs dense np.add.at reference, exact comparison"
LEVEL_TEXT = (
    "Generated-input search: thousands of random write histories (all key kinds, all value kinds, nested "
    "containers, rejected writes) compared exactly against a dense reference after every write. Finds any "
    "index-mapping, ordering or accumulation error that shows on matrices up to 8x8; it is sampling, not a proof."
)
LEVEL_NOTE = "trusted: numpy add.at as reference, scipy's own COO->dense conversion; indices non-negative and in range"
