"""C09 Scalar force laws default to a stress-free initial configuration."""

import numpy as np
from hypothesis import strategies as st

from harness import gen, build, sysbuild
from harness.runner import Result
from checks import c08

PROPERTY = "C09"
LEVEL = "exploration"
RULE = (
    "case = {Spring, KelvinVoigtElement (force and compliance form), MaxwellElement} x {TwoPointInteraction between "
    "any two of fixed Frame / PointMass / RigidBody with body-fixed offsets, Revolute between Frame/RigidBody and "
    "RigidBody with random axis, placement and angle0 in (-2pi,2pi)} x initial configuration, reference length "
    "omitted; initial velocities zero. In a quarter of the cases the interaction is assembled first, the system gets a "
    "new initial configuration through System.set_new_initial_state (body 2 rotated about the joint axis / moved "
    "rigidly) and only then the force law is attached and the system re-assembled. The enumerated grid law x form x interaction is also run. Non-trivial: "
    "revolute subsystem or non-zero offsets."
)
ASSUMPTIONS = [
    "usage follows the repository's scripts: the interaction is added to the System before the force law",
    "initial relative velocity zero (all u0 = 0, fixed frames), so damper forces vanish too",
    "zero means <= 1e-10 * stiffness * (1 + |l0|)",
]
CASES = {"quick": 400, "thorough": 8000}
SHARDS = {"quick": 8, "thorough": 16}
TECHNIQUE = "generated force law x interaction x initial configuration; assembly must succeed, h, la_c and E_pot at (t0,q0,u0) must vanish"
LEVEL_TEXT = "Generated-input search plus enumeration of the law x form x interaction grid with an exact expected value (zero force, zero energy)."
LEVEL_NOTE = "trusted: System.h / la_c / E_pot"


@st.composite
def _case(draw):
    inter = draw(st.sampled_from(["tpi", "revolute"]))
    es = {"type": draw(st.sampled_from(c08.LAWS)), "k": draw(gen.f(0.5, 50.0)), "d": draw(gen.f(0.1, 10.0)),
          "compliance": draw(st.booleans()), "l_ref": None}
    spec = {"inter": inter, "t0": draw(gen.f(0, 1)), "element": es}
    zero_u = lambda b: (b.update(v=[0.0] * 3), b.update(omega=[0.0] * 3) if "omega" in b else None, b)[-1]
    if inter == "tpi":
        bs = []
        for _ in range(2):
            k = draw(st.sampled_from(["rigid", "rigid", "point", "frame"]))
            bs.append(zero_u(draw(build.rigid_body())) if k == "rigid" else zero_u(draw(build.point_mass())) if k == "point"
                      else draw(build.frame_body(moving=False, rotating=False)))
        if bs[0]["kind"] == "frame" and bs[1]["kind"] == "frame":
            bs[1] = zero_u(draw(build.rigid_body()))
        # distance of the two points: of order one, or (micro-scale elements, models measured in km) down to 1e-7
        tiny = draw(st.integers(0, 4)) == 0
        d = np.array(draw(gen.unit_vec3())) * (10.0 ** draw(gen.f(-7.0, -1.0)) if tiny else draw(gen.f(1.0, 4.0)))
        for b, sh in zip(bs, (-0.5 * d, 0.5 * d)):
            if b["kind"] == "frame":
                b["motion"]["c0"] = sh.tolist()
            else:
                b["r"] = sh.tolist()
        off = draw(st.booleans()) and not tiny
        spec["tpi"] = {"B1": draw(gen.vec3(-2, -0.7)) if off else [0.0] * 3, "B2": draw(gen.vec3(-2, -0.7)) if off else [0.0] * 3}
        if draw(st.integers(0, 3)) == 0:
            # the second point sits on a cross-section of a Cosserat rod (any formulation, 1-3 elements)
            from harness import rodbuild
            rs = draw(rodbuild.rod_spec(max_nel=3, allow_constraints=False))
            rs["r0"] = (0.5 * d + np.array(rs["r0"]) * (0.0 if tiny else 0.3)).tolist()
            bs[1] = {"kind": "rod", "rod": rs}
            spec["tpi"]["xi2"] = draw(st.sampled_from([0.0, 1.0, 0.5, draw(gen.f(0.0, 1.0))]))
        spec["bodies"] = bs
    else:
        b1 = draw(st.one_of(build.rigid_body(), build.frame_body(moving=False, rotating=False),
                            build.frame_body(moving=draw(st.booleans()), rotating=True)))
        if b1["kind"] == "rigid":
            zero_u(b1)
        b2 = zero_u(draw(build.rigid_body()))
        if b1["kind"] == "frame" and "axis" in b1["motion"]:
            # the frame turns (prescribed motion); body 2 moves with it, so that the relative velocity in the joint is zero
            f_ = build.motion_functions(b1["motion"])
            t0_ = spec["t0"]
            A_ = f_["A"](t0_)
            S_ = f_["A_t"](t0_) @ A_.T
            om_ = np.array([S_[2, 1], S_[0, 2], S_[1, 0]])
            b2["v"] = (f_["r_t"](t0_) + np.cross(om_, np.array(b2["r"]) - f_["r"](t0_))).tolist()
            b2["omega"] = (gen.quat_to_R(np.array(b2["P"])).T @ om_).tolist()
        spec["bodies"] = [b1, b2]
        spec["joint"] = {"type": "Revolute", "axis": draw(st.integers(0, 2)),
                         "angle0": draw(st.sampled_from([0.0, None, None])) or draw(gen.f(-6.2, 6.2)),
                         "r_OJ0": [draw(gen.f(-1, 1)) for _ in range(3)] if draw(st.booleans()) else None,
                         "psi_J": draw(gen.rotvec(min_exp=-2, near_max=False)) if draw(st.booleans()) else None}
    # a second assembly of the finished system must leave everything as it is
    spec["assemble_twice"] = draw(st.booleans())
    # order in which force law and interaction are added to the System
    spec["law_first"] = draw(st.integers(0, 3)) == 0
    if draw(st.integers(0, 3)) == 0:
        # history: the interaction is assembled first, the system is given a new initial configuration (body 2 rotated
        # about the joint axis / moved rigidly), and only then the force law is attached and the system re-assembled
        spec["restart"] = {"angle": draw(gen.f(-3.0, 3.0)), "psi": draw(gen.rotvec(min_exp=-2, near_max=False)),
                           "b": [draw(gen.f(-1, 1)) for _ in range(3)]}
    return spec


def strategy(tier):
    return _case()


def static_cases(tier):
    out = []
    rb = lambda r: {"kind": "rigid", "mass": 1.0, "theta": [[1.0, 0, 0], [0, 2.0, 0], [0, 0, 3.0]], "r": r,
                    "P": [0.9, 0.1, -0.2, 0.3], "v": [0.0] * 3, "omega": [0.0] * 3}
    for law in c08.LAWS:
        for comp in (True, False):
            es = {"type": law, "k": 10.0, "d": 2.0, "compliance": comp, "l_ref": None}
            out.append({"inter": "tpi", "t0": 0.0, "element": es, "bodies": [rb([0.0, 0, 0]), rb([1.0, 1.0, 0.5])],
                        "tpi": {"B1": [0.1, 0.0, 0.2], "B2": [0.0, -0.1, 0.0]}})
            for a0 in (0.0, 1.3, -4.0):
                out.append({"inter": "revolute", "t0": 0.0, "element": es, "bodies": [rb([0.0, 0, 0]), rb([1.0, 1.0, 0.5])],
                            "joint": {"type": "Revolute", "axis": 2, "angle0": a0, "r_OJ0": [0.5, 0.5, 0.0], "psi_J": [0.1, 0.2, 0.3]}})
    return out


def _build_with_restart(spec):
    """interaction assembled -> new initial configuration via System.set_new_initial_state -> force law attached"""
    from cardillo.solver import SolverOptions
    from harness.runner import quiet

    bare = {k: v for k, v in spec.items() if k not in ("element", "restart")}
    bare["load"] = {"type": "Force", "f0": [0.0, 0.0, 0.0]}  # build_case needs one element; a zero force is inert
    if spec["bodies"][-1]["kind"] == "rod":
        bare["load"]["xi"] = 0.5
    system, _, inter = c08.build_case(bare)
    rs = spec["restart"]
    body2 = inter.subsystem2
    q0 = system.q0.copy()
    if len(body2.q0):
        ql = q0[body2.qDOF]
        if spec["inter"] == "revolute":
            psi = np.asarray(inter.A_IJ0)[:, spec["joint"]["axis"]] * rs["angle"]
            R = gen._exp(psi)
            b = np.asarray(inter.r_OJ0) - R @ np.asarray(inter.r_OJ0)
        else:
            psi = np.array(rs["psi"], dtype=float)
            R, b = gen._exp(psi), np.array(rs["b"], dtype=float)
        if spec["bodies"][-1]["kind"] == "rod":
            from harness import rodbuild
            q0[body2.qDOF] = rodbuild.rigid_motion(spec["bodies"][-1]["rod"], ql, psi, b)
            ql = None
    if len(body2.q0) and ql is not None:
        new = ql.copy()
        new[:3] = R @ ql[:3] + b
        if len(ql) == 7:
            a = float(np.linalg.norm(psi))
            qR = np.concatenate([[np.cos(a / 2)], np.sin(a / 2) * psi / a]) if a > 0 else np.array([1.0, 0, 0, 0])
            p = ql[3:]
            new[3:] = np.array([qR[0] * p[0] - qR[1:] @ p[1:], *(qR[0] * p[1:] + p[0] * qR[1:] + np.cross(qR[1:], p[1:]))])
        q0[body2.qDOF] = new
    with quiet():
        system.set_new_initial_state(q0, system.u0.copy(), options=SolverOptions(compute_consistent_initial_conditions=False))
        el = sysbuild.make_force_law(dict(spec["element"]), inter)
        system.add(el)
    sysbuild.assemble(system)
    return system, el, inter


def check(spec):
    res = Result()
    site = c08.element_site(spec)
    feats = {"element": site}
    if "restart" in spec:
        system, el, inter = _build_with_restart(spec)
    else:
        system, el, inter = c08.build_case(spec)  # an exception from repository code here is a failure ('raises')
    if spec.get("assemble_twice"):
        sysbuild.assemble(system)
    t0, q0, u0 = system.t0, system.q0, system.u0
    # the system is evaluated somewhere else first (as any solver does) and only then at its initial state: values
    # memoised during assembly must not be what makes the initial state look stress-free
    if system.nq:
        qx = q0 + 0.05 * np.cos(np.arange(system.nq) + 1.0)
        system.h(t0 + 0.1, qx, u0)
        if system.nla_c:
            system.la_c(t0 + 0.1, qx, u0)
        system.E_pot(t0 + 0.1, qx)
        if spec["inter"] == "revolute":
            inter.l(t0, q0[inter.qDOF])  # (the joint angle is tracked: come back in one step)
    k = spec["element"]["k"]
    l0 = abs(float(inter.l(t0, q0[inter.qDOF])))
    tol = 1e-10 * k * (1 + l0)
    # the element's own generalized force (the bodies' gyroscopic forces are not the element's; they are non-zero when
    # body 2 co-rotates with a turning frame)
    h = system.h(t0, q0, u0)
    for c_ in system.contributions:
        if c_ is not el and hasattr(c_, "h") and callable(getattr(c_, "h")) and hasattr(c_, "uDOF") and hasattr(c_, "qDOF"):
            h[c_.uDOF] -= c_.h(t0, q0[c_.qDOF], u0[c_.uDOF])
    res.ok()
    if np.max(np.abs(h)) > tol:
        res.fail("zero_force", site, float(np.max(np.abs(h))), feats)
    if system.nla_c:
        la_c = system.la_c(t0, q0, u0)
        res.ok()
        if np.max(np.abs(la_c)) > tol:
            res.fail("zero_compliance_force", site, float(np.max(np.abs(la_c))), feats)
        c = system.c(t0, q0, u0, np.zeros(system.nla_c))
        res.ok()
        if np.max(np.abs(c)) > tol / k:
            res.fail("zero_compliance_residual_at_zero_force", site, float(np.max(np.abs(c))), feats)
    E = system.E_pot(t0, q0)
    res.ok()
    if not np.isfinite(E) or abs(E) > tol * (1 + l0):
        res.fail("zero_energy", site, abs(E), feats)
    offs = spec["inter"] == "tpi" and (np.any(np.array(spec["tpi"]["B1"])) or np.any(np.array(spec["tpi"]["B2"])))
    res.nontrivial = spec["inter"] == "revolute" or bool(offs)
    res.label(site, "history:law_attached_after_new_initial_state" if "restart" in spec else "history:single_assembly")
    if spec["inter"] == "revolute":
        res.label("angle0!=0" if spec["joint"]["angle0"] != 0 else "angle0=0")
    return res
