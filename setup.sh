#!/bin/sh
# Offline, idempotent. Installs hypothesis into /venv if it is missing and mpmath into /verif/.deps.
set -e
HERE="$(cd "$(dirname "$0")" && pwd)"
export PIP_NO_INDEX=1
WH=/opt/veriftools/wheels
if ! /venv/bin/python -c "import hypothesis" 2>/dev/null; then
  /venv/bin/pip install --no-index --find-links "$WH" hypothesis
fi
mkdir -p "$HERE/.deps"
if ! PYTHONPATH="$HERE/.deps" /venv/bin/python -c "import mpmath" 2>/dev/null; then
  /venv/bin/pip install --no-index --find-links "$WH" --target "$HERE/.deps" mpmath
fi
/venv/bin/python -c "import hypothesis, numpy, scipy; print('hypothesis', hypothesis.__version__)"
PYTHONPATH="$HERE/.deps" /venv/bin/python -c "import mpmath; print('mpmath', mpmath.__version__)"
echo setup ok
