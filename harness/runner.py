"""Common runner for all generated checks.

A property module (checks/cNN.py) provides

    PROPERTY      "C15"
    LEVEL         "exploration" | "fault_enumeration"
    RULE          text: how cases are generated and what makes one non-trivial
    ASSUMPTIONS   list of str
    CASES         {"quick": n, "thorough": n}       generated cases per run (all shards)
    SHARDS        {"quick": k, "thorough": k}       worker processes (fixed, so a run is a
                                                    pure function of VERIF_SEED and tier)
    strategy(tier)        -> hypothesis strategy producing a JSON-serialisable spec
    check(spec)           -> Result
    static_cases(tier)    -> optional list of specs that are always run (enumerations,
                             hand-written regression shapes)

A Result carries failures (subcheck, site, magnitude, features), classification labels,
a non-trivial flag and a count of inconclusive sub-checks. check() never raises for a
property violation; an exception that escapes from repository code is turned into a
failure "raises" by the runner, an exception from harness code is a harness error (exit 2).
"""

import contextlib
import hashlib
import io
import json
import multiprocessing as mp
import os
import sys
import time
import traceback
import warnings

HERE = os.path.dirname(os.path.abspath(__file__))
VERIF = os.path.dirname(HERE)
REPO = os.path.abspath(os.environ.get("VERIF_REPO", "/repo"))


def setup_paths():
    deps = os.path.join(VERIF, ".deps")
    for p in (deps, VERIF, REPO):
        if p in sys.path:
            sys.path.remove(p)
        sys.path.insert(0, p)


setup_paths()


# --------------------------------------------------------------------------------------
# Result protocol
# --------------------------------------------------------------------------------------
class Result:
    __slots__ = ("failures", "labels", "nontrivial", "inconclusive", "checked", "info")

    def __init__(self):
        self.failures = []  # dicts: subcheck, site, magnitude, features, detail
        self.labels = []  # classification labels (strings)
        self.nontrivial = False
        self.inconclusive = 0
        self.checked = 0  # number of sub-check evaluations performed
        self.info = {}

    def fail(self, subcheck, site, magnitude=None, features=None, detail=None):
        try:
            magnitude = None if magnitude is None else float(magnitude)
        except Exception:
            magnitude = None
        self.failures.append(
            dict(
                subcheck=str(subcheck),
                site=str(site),
                magnitude=magnitude,
                features=dict(features or {}),
                detail=None if detail is None else str(detail)[:400],
            )
        )

    def label(self, *labels):
        for l in labels:
            self.labels.append(str(l))

    def ok(self, n=1):
        self.checked += n


def canon(spec):
    return json.dumps(spec, sort_keys=True, separators=(",", ":"), default=_json_default)


def _json_default(o):
    import numpy as np

    if isinstance(o, np.ndarray):
        return o.tolist()
    if isinstance(o, (np.floating,)):
        return float(o)
    if isinstance(o, (np.integer,)):
        return int(o)
    if isinstance(o, (np.bool_,)):
        return bool(o)
    if isinstance(o, tuple):
        return list(o)
    raise TypeError(type(o))


def spec_hash(spec):
    return hashlib.sha1(canon(spec).encode()).hexdigest()[:16]


@contextlib.contextmanager
def quiet():
    """Silence the print/tqdm noise of the solvers; warnings stay observable."""
    so, se = sys.stdout, sys.stderr
    sys.stdout = io.StringIO()
    sys.stderr = io.StringIO()
    try:
        yield
    finally:
        sys.stdout, sys.stderr = so, se


# --------------------------------------------------------------------------------------
# known findings
# --------------------------------------------------------------------------------------
def load_known(prop):
    path = os.path.join(VERIF, "known_findings.json")
    if not os.path.exists(path):
        return []
    with open(path) as f:
        data = json.load(f)
    return [k for k in data if k.get("property") == prop]


def _where_ok(where, features):
    for key, cond in (where or {}).items():
        if key not in features:
            return False
        v = features[key]
        if isinstance(cond, dict):
            if "lt" in cond and not (v < cond["lt"]):
                return False
            if "le" in cond and not (v <= cond["le"]):
                return False
            if "gt" in cond and not (v > cond["gt"]):
                return False
            if "ge" in cond and not (v >= cond["ge"]):
                return False
            if "eq" in cond and not (v == cond["eq"]):
                return False
            if "in" in cond and v not in cond["in"]:
                return False
        else:
            if v != cond:
                return False
    return True


def match_known(known, failure):
    """Return the id of the known (status 'known') finding this failure belongs to."""
    for k in known:
        if k.get("status") != "known":
            continue
        if k.get("subcheck") != failure["subcheck"]:
            continue
        sites = k.get("sites") or [k.get("site")]
        if failure["site"] not in sites:
            continue
        if not _where_ok(k.get("where"), failure.get("features", {})):
            continue
        return k["id"]
    return None


# --------------------------------------------------------------------------------------
# running a case
# --------------------------------------------------------------------------------------
def _repo_frame(tb):
    """Innermost traceback frame that lies in the repository's package, if any."""
    found = None
    for fs in traceback.extract_tb(tb):
        fn = os.path.abspath(fs.filename)
        if fn.startswith(os.path.join(REPO, "cardillo") + os.sep):
            found = fs
    return found


def run_case(mod, spec):
    """Run check(spec); exceptions escaping from repository code become failures."""
    from harness import numdiff

    del numdiff.IMPURE[:]
    try:
        with warnings.catch_warnings():
            warnings.simplefilter("ignore")
            res = mod.check(spec)
        seen = set()
        for site, mag, detail in numdiff.IMPURE:
            if site not in seen:
                seen.add(site)
                res.ok()
                res.fail("repeated_evaluation_same_arguments", site, mag, {}, detail)
    except HarnessError:
        raise
    except Exception as e:
        if type(e).__name__ == "WorkBudgetExceeded":
            # an adaptive third-party integrator collapsed its step size: bounded by a count of evaluations, the
            # case decides nothing
            res = Result()
            res.inconclusive += 1
            res.label("work_budget_exceeded")
            return res
        fs = _repo_frame(e.__traceback__)
        if fs is None:
            raise
        res = Result()
        rel = os.path.relpath(fs.filename, REPO)
        res.fail(
            "raises",
            f"{type(e).__name__}@{rel}:{fs.name}",
            None,
            {},
            detail=repr(e),
        )
        res.label("escaped_exception")
    return res


class HarnessError(Exception):
    pass


class Collector:
    def __init__(self, mod, known):
        self.mod = mod
        self.known = known
        self.evaluations = 0
        self.checked = 0
        self.inconclusive = 0
        self.nontrivial_hashes = set()
        self.all_hashes = set()
        self.labels = {}
        self.buckets = {}  # (subcheck, site) -> dict(count, spec, magnitude, index, size)
        self.known_excluded = {}
        self.samples = []
        self.sample_nt = []

    def record(self, spec, res):
        h = spec_hash(spec)
        self.evaluations += 1
        self.checked += res.checked
        self.inconclusive += res.inconclusive
        new = h not in self.all_hashes
        self.all_hashes.add(h)
        if res.nontrivial:
            self.nontrivial_hashes.add(h)
        for l in set(res.labels):
            self.labels[l] = self.labels.get(l, 0) + 1
        if new and len(self.samples) < 2:
            self.samples.append(spec)
        if new and res.nontrivial and len(self.sample_nt) < 3:
            self.sample_nt.append(spec)
        unknown = []
        for f in res.failures:
            kid = match_known(self.known, f)
            if kid is not None:
                self.known_excluded[kid] = self.known_excluded.get(kid, 0) + 1
                continue
            unknown.append(f)
            key = (f["subcheck"], f["site"])
            size = len(canon(spec))
            b = self.buckets.get(key)
            if b is None:
                self.buckets[key] = dict(
                    count=1,
                    spec=spec,
                    magnitude=f["magnitude"],
                    size=size,
                    index=self.evaluations - 1,
                    detail=f.get("detail"),
                    features=f.get("features"),
                )
            else:
                b["count"] += 1
                if size < b["size"]:
                    b.update(
                        spec=spec,
                        size=size,
                        magnitude=f["magnitude"],
                        detail=f.get("detail"),
                        features=f.get("features"),
                    )
        return unknown

    def summary(self):
        return dict(
            evaluations=self.evaluations,
            checked=self.checked,
            inconclusive=self.inconclusive,
            nontrivial_hashes=sorted(self.nontrivial_hashes),
            n_distinct=len(self.all_hashes),
            labels=self.labels,
            buckets={f"{k[0]}\x00{k[1]}": v for k, v in self.buckets.items()},
            known_excluded=self.known_excluded,
            samples=self.sample_nt + self.samples,
        )


def hyp_settings(n, shrink, tier):
    from hypothesis import settings, HealthCheck, Phase

    phases = [Phase.generate] + ([Phase.shrink] if shrink else [])
    return settings(
        max_examples=max(1, n),
        database=None,
        deadline=None,
        derandomize=False,
        report_multiple_bugs=False,
        suppress_health_check=list(HealthCheck),
        phases=phases,
        print_blob=False,
    )


def _shard_seed(seed, shard):
    return int(seed) * 1000 + int(shard)


def _shard_child(job, path):
    import pickle

    _fresh_tqdm_lock()
    out = run_shard(job)
    with open(path + ".tmp", "wb") as f:
        pickle.dump(out, f)
    os.replace(path + ".tmp", path)


def _fresh_tqdm_lock():
    """tqdm (the solvers' progress bars) keeps a multiprocessing lock and a monitor thread; after a fork neither may
    be shared with the parent or the sibling shards."""
    try:
        import threading
        import tqdm

        tqdm.tqdm.monitor_interval = 0
        tqdm.tqdm.set_lock(threading.RLock())
    except Exception:
        pass


def _run_shards_forked(jobs, width):
    import pickle
    import shutil
    import tempfile

    ctx = mp.get_context("fork")
    tmp = tempfile.mkdtemp(prefix="vshards.")
    outs = [None] * len(jobs)
    try:
        pending = list(enumerate(jobs))
        running = []
        while pending or running:
            while pending and len(running) < width:
                i, job = pending.pop(0)
                pr = ctx.Process(target=_shard_child, args=(job, os.path.join(tmp, f"{i}.pkl")))
                pr.start()
                running.append((i, pr))
            i, pr = running.pop(0)
            pr.join()
            path = os.path.join(tmp, f"{i}.pkl")
            if pr.exitcode != 0 or not os.path.exists(path):
                for _, other in running:
                    other.kill()
                return None
            with open(path, "rb") as f:
                outs[i] = pickle.load(f)
        return outs
    finally:
        shutil.rmtree(tmp, ignore_errors=True)


def run_shard(args):
    """Worker: generated search for one shard. Returns a summary dict."""
    modname, tier, seed, shard, ncases, do_shrink = args
    try:
        return _run_shard(modname, tier, seed, shard, ncases, do_shrink)
    except BaseException:
        return dict(harness_error=traceback.format_exc(), shard=shard)


def _run_shard(modname, tier, seed, shard, ncases, do_shrink):
    import importlib
    import hypothesis
    from hypothesis import given

    mod = importlib.import_module(modname)
    known = load_known(mod.PROPERTY)
    col = Collector(mod, known)
    t0 = time.time()

    # static cases are run by shard 0 only
    if shard == 0 and hasattr(mod, "static_cases"):
        for spec in mod.static_cases(tier):
            col.record(spec, run_case(mod, spec))

    strat = mod.strategy(tier)
    # Hypothesis starts every run with the all-minimal example; shards other than 0 skip it (it would be the same
    # case in every shard) and draw one more example instead
    skip_first = shard > 0
    calls = [0]

    @hypothesis.seed(_shard_seed(seed, shard))
    @hyp_settings(ncases + (1 if skip_first else 0), False, tier)
    @given(strat)
    def search(spec):
        calls[0] += 1
        if skip_first and calls[0] == 1:
            return
        col.record(spec, run_case(mod, spec))

    if ncases > 0:
        search()
    out = col.summary()
    out["shard"] = shard
    out["wall_search"] = time.time() - t0

    # shrink phase for (at most 3 per shard) new buckets
    shrunk = {}
    if do_shrink and col.buckets:
        import hypothesis.internal.conjecture.engine as eng

        eng.MAX_SHRINKING_SECONDS = 45 if tier == "quick" else 180
        for key in sorted(col.buckets, key=lambda k: col.buckets[k]["index"])[:3]:
            b = col.buckets[key]
            if b["index"] < 0 or ncases <= 0:
                continue
            best = {"spec": None}

            def hits(spec, key=key):
                res = run_case(mod, spec)
                for f in res.failures:
                    if (f["subcheck"], f["site"]) == key and match_known(known, f) is None:
                        return f
                return None

            @hypothesis.seed(_shard_seed(seed, shard))
            @hyp_settings(ncases + (1 if skip_first else 0), True, tier)
            @given(strat)
            def shrinker(spec):
                f = hits(spec)
                if f is not None:
                    best["spec"] = spec
                    best["f"] = f
                    raise AssertionError("bucket reproduced")

            try:
                with quiet():
                    shrinker()
            except AssertionError:
                pass
            except Exception:
                pass
            if best["spec"] is not None:
                shrunk[f"{key[0]}\x00{key[1]}"] = dict(
                    spec=best["spec"],
                    magnitude=best["f"]["magnitude"],
                    detail=best["f"].get("detail"),
                    features=best["f"].get("features"),
                )
    out["shrunk"] = shrunk
    out["wall"] = time.time() - t0
    return out


# --------------------------------------------------------------------------------------
# top level
# --------------------------------------------------------------------------------------
def write_evidence(mod, tier, seed, merged, wall, violations, extra=None):
    prop = mod.PROPERTY
    cov = dict(
        evaluations=int(merged["evaluations"]),
        distinct_nontrivial=int(len(merged["nontrivial"])),
        rule=mod.RULE,
        samples=merged["samples"][:5],
        distinct_cases=int(merged["n_distinct"]),
        subcheck_evaluations=int(merged["checked"]),
        inconclusive=int(merged["inconclusive"]),
        class_histogram=dict(sorted(merged["labels"].items())),
        known_findings_excluded=merged["known_excluded"],
        replays_run=merged.get("replays_run", 0),
        shards=merged.get("shards", 1),
        exhaustive=bool(getattr(mod, "EXHAUSTIVE", False)),
    )
    if extra:
        cov.update(extra)
    ev = dict(
        property_id=prop,
        tier=tier,
        seed=int(seed),
        level=getattr(mod, "LEVEL", "exploration"),
        coverage=cov,
        assumptions=list(getattr(mod, "ASSUMPTIONS", [])),
        wall_s=round(float(wall), 2),
        violations=int(violations),
    )
    # VERIF_OUT redirects run-time output (evidence, new-* replays) for runs against scratch copies of the repo
    edir = os.path.join(os.environ["VERIF_OUT"], "evidence") if os.environ.get("VERIF_OUT") else os.path.join(VERIF, "evidence")
    os.makedirs(edir, exist_ok=True)
    path = os.path.join(edir, f"{prop}.json")
    tmp = path + ".tmp"
    with open(tmp, "w") as f:
        json.dump(ev, f, indent=1, default=_json_default)
    os.replace(tmp, path)
    return path


def replay_file(mod, path, known):
    with open(path) as f:
        rp = json.load(f)
    res = run_case(mod, rp["spec"])
    unknown = [f for f in res.failures if match_known(known, f) is None]
    return rp, res, unknown


def main(argv=None):
    import argparse

    _fresh_tqdm_lock()
    import importlib

    ap = argparse.ArgumentParser()
    ap.add_argument("prop")
    ap.add_argument("--tier", default=os.environ.get("VERIF_TIER", "quick"))
    ap.add_argument("--replay", default=None)
    ap.add_argument("--cases", type=int, default=None)
    ap.add_argument("--shards", type=int, default=None)
    ap.add_argument("--no-shrink", action="store_true")
    a = ap.parse_args(argv)
    tier = a.tier if a.tier in ("quick", "thorough") else "quick"
    try:
        seed = int(os.environ.get("VERIF_SEED", "1"))
    except ValueError:
        seed = 1
    prop = a.prop.upper()
    modname = f"checks.{prop.lower()}"
    t0 = time.time()
    try:
        mod = importlib.import_module(modname)
    except Exception:
        traceback.print_exc()
        print(f"HARNESS-ERROR property={prop} cannot import check module")
        return 2
    known = load_known(prop)

    # ---- single replay ---------------------------------------------------------------
    if a.replay:
        try:
            rp, res, unknown = replay_file(mod, a.replay, known)
        except Exception:
            traceback.print_exc()
            print(f"HARNESS-ERROR property={prop} replay failed to run")
            return 2
        for f in res.failures:
            kid = match_known(known, f)
            tag = f"known:{kid}" if kid else "NEW"
            print(f"  failure [{tag}] {f['subcheck']} @ {f['site']} magnitude={f['magnitude']} {f.get('detail') or ''}")
        if unknown:
            print(f"VIOLATION property={prop} replay={a.replay}")
            return 1
        print(f"replay {a.replay}: no violation ({res.checked} sub-checks)")
        return 0

    # ---- committed replays first -----------------------------------------------------
    rdir = os.path.join(VERIF, "replays", prop)
    violations = []  # (bucketkey, path)
    replays_run = 0
    known_seen = {}
    if os.path.isdir(rdir):
        for fn in sorted(os.listdir(rdir)):
            if not fn.endswith(".json") or fn.startswith("new-"):
                continue
            p = os.path.join(rdir, fn)
            try:
                rp, res, unknown = replay_file(mod, p, known)
            except Exception:
                traceback.print_exc()
                print(f"HARNESS-ERROR property={prop} replay {p} failed to run")
                return 2
            replays_run += 1
            for f in res.failures:
                kid = match_known(known, f)
                if kid:
                    known_seen[kid] = known_seen.get(kid, 0) + 1
            if unknown:
                f = unknown[0]
                print(f"  replay {fn}: {f['subcheck']} @ {f['site']} magnitude={f['magnitude']} {f.get('detail') or ''}")
                violations.append(((f["subcheck"], f["site"]), os.path.relpath(p, VERIF)))

    # ---- generated search ------------------------------------------------------------
    ncases = a.cases if a.cases is not None else mod.CASES[tier]
    nshards = a.shards if a.shards is not None else mod.SHARDS[tier]
    nshards = max(1, min(nshards, max(1, ncases)))
    per = [ncases // nshards + (1 if i < ncases % nshards else 0) for i in range(nshards)]
    jobs = [(modname, tier, seed, i, per[i], not a.no_shrink) for i in range(nshards)]
    if nshards == 1:
        outs = [run_shard(jobs[0])]
    else:
        # One forked process per shard, each writing its summary to a file; the parent only joins them. No queues,
        # locks or helper threads are shared between the processes: both multiprocessing.Pool and
        # ProcessPoolExecutor were seen to wait for ever for a shard that every worker had finished (DESIGN 7.9).
        outs = _run_shards_forked(jobs, min(nshards, int(os.environ.get("VERIF_JOBS", "16"))))
        if outs is None:
            print(f"HARNESS-ERROR property={prop} a worker process died; no verdict")
            return 2
    for o in outs:
        if "harness_error" in o:
            print(o["harness_error"])
            print(f"HARNESS-ERROR property={prop} shard={o['shard']}")
            return 2

    merged = dict(
        evaluations=0,
        checked=0,
        inconclusive=0,
        nontrivial=set(),
        n_distinct=0,
        labels={},
        known_excluded=dict(known_seen),
        samples=[],
        replays_run=replays_run,
        shards=nshards,
    )
    buckets = {}
    for o in outs:
        merged["evaluations"] += o["evaluations"]
        merged["checked"] += o["checked"]
        merged["inconclusive"] += o["inconclusive"]
        merged["nontrivial"].update(o["nontrivial_hashes"])
        merged["n_distinct"] += o["n_distinct"]
        for k, v in o["labels"].items():
            merged["labels"][k] = merged["labels"].get(k, 0) + v
        for k, v in o["known_excluded"].items():
            merged["known_excluded"][k] = merged["known_excluded"].get(k, 0) + v
        if len(merged["samples"]) < 5:
            merged["samples"].extend(o["samples"][: 5 - len(merged["samples"])])
        for k, b in o["buckets"].items():
            s = o.get("shrunk", {}).get(k)
            cand = dict(b)
            if s is not None:
                cand.update(spec=s["spec"], magnitude=s["magnitude"], detail=s.get("detail"), shrunk=True,
                            size=len(canon(s["spec"])), features=s.get("features"))
            cur = buckets.get(k)
            if cur is None:
                buckets[k] = cand
            else:
                cnt = cur["count"] + cand["count"]
                if cand["size"] < cur["size"]:
                    buckets[k] = cand
                buckets[k]["count"] = cnt
    merged["evaluations"] += 0

    # ---- report ----------------------------------------------------------------------
    os.makedirs(rdir, exist_ok=True)
    reported = set(k for k, _ in violations)
    for k in sorted(buckets, key=lambda k: buckets[k]["index"]):
        sub, site = k.split("\x00")
        if (sub, site) in reported:
            continue
        if len(violations) >= 8:
            break
        b = buckets[k]
        tag = hashlib.sha1((k + canon(b["spec"])).encode()).hexdigest()[:8]
        safe = "".join(c if c.isalnum() or c in "-_." else "_" for c in f"{sub}-{site}")[:80]
        odir = os.path.join(os.environ["VERIF_OUT"], "replays", prop) if os.environ.get("VERIF_OUT") else rdir
        os.makedirs(odir, exist_ok=True)
        p = os.path.join(odir, f"new-{safe}-{tag}.json")
        with open(p, "w") as f:
            json.dump(
                dict(
                    property=prop,
                    subcheck=sub,
                    site=site,
                    magnitude=b["magnitude"],
                    detail=b.get("detail"),
                    features=b.get("features"),
                    count_in_run=b["count"],
                    shrunk=bool(b.get("shrunk")),
                    seed=seed,
                    tier=tier,
                    spec=b["spec"],
                ),
                f,
                indent=1,
                default=_json_default,
            )
        print(f"  bucket {sub} @ {site}: {b['count']} failing cases, magnitude={b['magnitude']} {b.get('detail') or ''}")
        violations.append(((sub, site), p if os.environ.get("VERIF_OUT") else os.path.relpath(p, VERIF)))

    wall = time.time() - t0
    extra = dict(
        violation_buckets=[dict(subcheck=k[0], site=k[1], replay=p) for k, p in violations],
    )
    try:
        write_evidence(mod, tier, seed, merged, wall, len(violations), extra)
    except Exception:
        traceback.print_exc()
        print(f"HARNESS-ERROR property={prop} evidence not written")
        return 2

    for k in known:
        if k.get("status") == "known":
            n = merged["known_excluded"].get(k["id"], 0)
            site = k.get("site") or ",".join(k.get("sites", []))
            print(f"KNOWN-FINDING: property={prop} {k['id']} {k['subcheck']} @ {site}: {k['what']} (observed {n}x in this run)")
    nt = len(merged["nontrivial"])
    print(
        f"{prop} tier={tier} seed={seed}: {merged['evaluations']} cases, {nt} distinct non-trivial, "
        f"{merged['checked']} sub-checks, {merged['inconclusive']} inconclusive, {wall:.1f}s"
    )
    if violations:
        for k, p in violations:
            print(f"VIOLATION property={prop} replay={p}")
        return 1
    return 0


if __name__ == "__main__":
    sys.exit(main())
