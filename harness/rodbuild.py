"""Spec -> Cosserat rod (all formulations) and generators of rod specs/states."""

import math

import numpy as np
from hypothesis import strategies as st

from harness import gen

CONSTRAINT_SETS = [None, None, [1, 2], [0, 1, 2], [3, 4, 5], [0, 1, 2, 3, 4, 5], [0], [4, 5]]


@st.composite
def rod_spec(draw, max_nel=4, allow_constraints=True, dynamic=False):
    interp = draw(st.sampled_from(["Quaternion", "SE3", "R12"]))
    mixed = draw(st.booleans())
    # a named set, or any non-empty subset of the six strain components
    cons = None
    if allow_constraints:
        cons = draw(st.sampled_from(CONSTRAINT_SETS)) if draw(st.booleans()) else sorted(draw(st.sets(st.integers(0, 5), min_size=1, max_size=6)))
    degree = 1 if interp == "SE3" else draw(st.sampled_from([1, 2, 2, 3]))
    nel = draw(st.integers(1, max_nel))
    quadratic_only = mixed or cons is not None
    material = "Simo1986" if quadratic_only else draw(st.sampled_from(["Simo1986", "Harsch2021"]))
    ref = draw(st.sampled_from(["straight", "helix", "helix"]))
    spec = {
        "interp": interp, "mixed": mixed, "constraints": cons, "degree": degree, "nel": nel,
        "material": material,
        "Ei": [draw(gen.f(1.0, 20.0)) for _ in range(3)],
        "Fi": [draw(gen.f(0.3, 5.0)) for _ in range(3)],
        "L": draw(gen.f(0.5, 3.0)),
        "ref": ref,
        "r0": [draw(gen.f(-1, 1)) for _ in range(3)],
        "psi0": draw(gen.rotvec(min_exp=-2, near_max=False)),
        "A_rho0": draw(gen.f(0.2, 3.0)),
        "I_rho0": [draw(gen.f(0.05, 1.0)) for _ in range(3)],
    }
    if ref == "helix":
        spec["helix"] = {"R": draw(gen.f(0.3, 1.5)), "c": draw(gen.f(-0.5, 0.5)),
                         "angle": draw(gen.f(0.2, 0.9)) * nel * (0.8 if interp == "SE3" else 1.0),
                         "twist": draw(gen.f(-0.5, 0.5))}
    return spec


def formulation_name(rs):
    c = "none" if rs["constraints"] is None else "".join(str(i) for i in rs["constraints"])
    return f"{rs['interp']}/{'mixed' if rs['mixed'] else 'DB'}/c={c}"


def make_rod(rs, q0=None, u0=None, name="rod"):
    """Returns (rod, Q)."""
    from cardillo.rods import CircularCrossSection, CrossSectionInertias, Simo1986, Harsch2021
    from cardillo.rods.cosseratRod import make_CosseratRod

    Rod = make_CosseratRod(interpolation=rs["interp"], mixed=rs["mixed"], constraints=rs["constraints"],
                           polynomial_degree=rs["degree"])
    A0 = np.array(rs["A0"], dtype=float) if "A0" in rs else gen._exp(np.array(rs["psi0"], dtype=float))
    r0 = np.array(rs["r0"], dtype=float)
    nel = rs["nel"]
    if rs["ref"] == "straight":
        Q = Rod.straight_configuration(nel, rs["L"], r_OP0=r0, A_IB0=A0)
    else:
        h = rs["helix"]
        R, c, ang, tw = h["R"], h["c"], h["angle"], h["twist"]
        r = lambda xi: np.array([R * math.cos(ang * xi), R * math.sin(ang * xi), c * xi])

        def A(xi):
            t = np.array([-R * ang * math.sin(ang * xi), R * ang * math.cos(ang * xi), c])
            ex = t / np.linalg.norm(t)
            n = np.array([-math.cos(ang * xi), -math.sin(ang * xi), 0.0])
            ey = n - ex * (ex @ n)
            ey /= np.linalg.norm(ey)
            ez = np.cross(ex, ey)
            F = np.vstack([ex, ey, ez]).T
            return F @ gen._exp(np.array([tw * xi, 0.0, 0.0]))

        Q = Rod.pose_configuration(nel, r, A, xi1=1.0, r_OP0=r0, A_IB0=A0)
    if rs.get("Q_scales"):
        # reference configuration whose nodal quaternions are not of unit length (each node scaled differently)
        Q = np.asarray(Q, dtype=float).copy()
        n_ = rs["degree"] * nel + 1
        P_ = Q[3 * n_:].reshape(4, n_)
        sc_ = np.array((list(rs["Q_scales"]) * n_)[:n_], dtype=float)
        Q[3 * n_:] = (P_ * sc_[None, :]).reshape(-1)
    mat = (Simo1986 if rs["material"] == "Simo1986" else Harsch2021)(np.array(rs["Ei"]), np.array(rs["Fi"]))
    inert = CrossSectionInertias(A_rho0=rs["A_rho0"], B_I_rho0=np.diag(rs["I_rho0"]))
    rod = Rod(CircularCrossSection(0.05), mat, nel, Q=np.asarray(Q, dtype=float),
              q0=None if q0 is None else np.asarray(q0, dtype=float),
              u0=None if u0 is None else np.asarray(u0, dtype=float), cross_section_inertias=inert, name=name)
    return rod, np.asarray(Q, dtype=float)


def nnodes(rs):
    return rs["degree"] * rs["nel"] + 1


def perturb(rs, Q, dr, dp, scales):
    """State = reference + bounded perturbation; nodal quaternions rescaled (non-unit)."""
    n = nnodes(rs)
    q = np.array(Q, dtype=float).copy()
    dr = np.array((list(dr) * (3 * n))[: 3 * n], dtype=float)
    dp = np.array((list(dp) * (4 * n))[: 4 * n], dtype=float)
    sc = np.array((list(scales) * n)[:n], dtype=float)
    q[: 3 * n] += dr * (rs["L"] / (rs["nel"] * rs["degree"])) * 0.3
    P = q[3 * n:].reshape(4, n) + 0.15 * dp.reshape(4, n)
    P = P * sc[None, :]
    q[3 * n:] = P.reshape(-1)
    return q


def rigid_motion(rs, q, psi, b):
    """Superpose the rigid motion x -> R x + b on all nodes (quaternions: q(R) o p)."""
    n = nnodes(rs)
    R = gen._exp(np.array(psi, dtype=float))
    a = float(np.linalg.norm(psi))
    ax = np.array(psi, dtype=float) / a if a > 0 else np.array([1.0, 0, 0])
    qR = np.concatenate([[math.cos(a / 2)], math.sin(a / 2) * ax])
    out = np.array(q, dtype=float).copy()
    r = out[: 3 * n].reshape(3, n)
    out[: 3 * n] = (R @ r + np.array(b, dtype=float)[:, None]).reshape(-1)
    P = out[3 * n:].reshape(4, n)
    Pn = np.zeros_like(P)
    for i in range(n):
        p = P[:, i]
        Pn[0, i] = qR[0] * p[0] - qR[1:] @ p[1:]
        Pn[1:, i] = qR[0] * p[1:] + p[0] * qR[1:] + np.cross(qR[1:], p[1:])
    out[3 * n:] = Pn.reshape(-1)
    return out


def quat_steps(rs, q):
    """Differencing steps for a rod state: 1e-3 for positions, 1e-3*|p| for the quaternion of each node."""
    n = nnodes(rs)
    h = 1e-3 * np.ones_like(q)
    P = q[3 * n:].reshape(4, n)
    nrm = np.linalg.norm(P, axis=0)
    h[3 * n:] = (1e-3 * np.tile(nrm, 4))
    return h


def nodal_xis(rs):
    n = nnodes(rs)
    return [i / (n - 1) for i in range(n)]
