"""Shared Hypothesis generators. All strategies return plain Python floats / lists so that a
generated case is JSON data."""

import math

import numpy as np
from hypothesis import strategies as st


def f(lo, hi):
    return st.floats(lo, hi, allow_nan=False, allow_infinity=False, allow_subnormal=False)


def log_uniform(lo_exp, hi_exp):
    """10**e with e uniform in [lo_exp, hi_exp]."""
    return f(lo_exp, hi_exp).map(lambda e: 10.0**e)


_AXES = [
    [1.0, 0.0, 0.0],
    [0.0, 1.0, 0.0],
    [0.0, 0.0, 1.0],
    [-1.0, 0.0, 0.0],
    [0.0, -1.0, 0.0],
    [0.0, 0.0, -1.0],
]


@st.composite
def unit_vec3(draw, special=True):
    kind = draw(st.sampled_from(["rand", "rand", "rand", "axis", "zero_comp"])) if special else "rand"
    if kind == "axis":
        return list(draw(st.sampled_from(_AXES)))
    v = np.array([draw(f(-1, 1)), draw(f(-1, 1)), draw(f(-1, 1))])
    if kind == "zero_comp":
        v[draw(st.integers(0, 2))] = 0.0
    n = float(np.linalg.norm(v))
    if n < 1e-3:
        return [1.0, 0.0, 0.0]
    return (v / n).tolist()


@st.composite
def vec3(draw, lo_exp=-3, hi_exp=1, allow_zero=True):
    """3-vector with log-uniform magnitude."""
    if allow_zero and draw(st.integers(0, 19)) == 0:
        return [0.0, 0.0, 0.0]
    d = np.array(draw(unit_vec3()))
    m = draw(log_uniform(lo_exp, hi_exp))
    return (m * d).tolist()


@st.composite
def vecn(draw, n, lo=-2.0, hi=2.0):
    return [draw(f(lo, hi)) for _ in range(n)]


@st.composite
def unit_quat(draw):
    kind = draw(st.sampled_from(["axis_angle", "axis_angle", "normals", "sparse", "neg_scalar", "identity", "planar"]))
    if kind == "identity":
        return [draw(st.sampled_from([1.0, 1.0, -1.0])), 0.0, 0.0, 0.0]
    if kind == "planar":
        # rotation about a coordinate axis (two components exactly zero), any angle in (-2 pi, 2 pi)
        ang = draw(f(-2 * math.pi, 2 * math.pi))
        q = [math.cos(ang / 2), 0.0, 0.0, 0.0]
        q[draw(st.integers(1, 3))] = math.sin(ang / 2)
        return q
    if kind in ("axis_angle", "neg_scalar"):
        ax = np.array(draw(unit_vec3()))
        ang = draw(f(-math.pi, math.pi))
        if kind == "neg_scalar":
            ang = ang + 2 * math.pi if ang >= 0 else ang - 2 * math.pi
        q = np.concatenate([[math.cos(ang / 2)], math.sin(ang / 2) * ax])
        return q.tolist()
    q = np.array([draw(f(-1, 1)) for _ in range(4)])
    if kind == "sparse":
        q[draw(st.integers(0, 3))] = 0.0
    n = float(np.linalg.norm(q))
    if n < 1e-3:
        return [1.0, 0.0, 0.0, 0.0]
    return (q / n).tolist()


@st.composite
def quat(draw, lo_exp=-3, hi_exp=3, unit_prob=0.15):
    """Non-zero quaternion: unit quaternion times a log-uniform scale."""
    u = np.array(draw(unit_quat()))
    k = draw(f(0, 1))
    if k < unit_prob:
        return u.tolist()
    if k < 2 * unit_prob:
        # a unit quaternion that has drifted: length 1 +- 10^-k, k in [1, 14]
        return ((1.0 + draw(st.sampled_from([1.0, -1.0])) * 10.0 ** (-draw(f(1.0, 14.0)))) * u).tolist()
    s = draw(log_uniform(lo_exp, hi_exp))
    return (s * u).tolist()


@st.composite
def near_unit_quat(draw, spread=0.3):
    """Quaternion whose length differs moderately from one (states of bodies and rod nodes)."""
    u = np.array(draw(unit_quat()))
    kind = draw(st.integers(0, 3))
    s = 1.0 + draw(f(-spread, spread)) if kind < 2 else 1.0 if kind == 2 else 1.0 + draw(st.sampled_from([1.0, -1.0])) * 10.0 ** (-draw(f(1.0, 14.0)))
    return (s * u).tolist()


@st.composite
def rotvec(draw, min_exp=-9, max_angle=math.pi, allow_zero=True, near_max=True):
    """Rotation vector with log-uniform norm in [10**min_exp, max_angle)."""
    kind = draw(st.sampled_from(["log", "log", "log", "uniform", "near_max", "zero"]))
    ax = np.array(draw(unit_vec3()))
    if kind == "zero" and allow_zero:
        return [0.0, 0.0, 0.0]
    if kind == "near_max" and near_max:
        k = draw(st.integers(1, 12))
        a = max_angle - 10.0 ** (-k)
    elif kind == "uniform":
        a = draw(f(1e-3, max_angle * (1 - 1e-12)))
    else:
        a = min(draw(log_uniform(min_exp, math.log10(max_angle))), max_angle * (1 - 1e-12))
    return (a * ax).tolist()


def spd3():
    """Symmetric positive definite 3x3 (as nested list): R diag(d) R^T."""

    @st.composite
    def _s(draw):
        d = [draw(f(0.1, 5.0)) for _ in range(3)]
        psi = np.array(draw(rotvec(min_exp=-2)))
        R = _exp(psi)
        return (R @ np.diag(d) @ R.T).tolist()

    return _s()


def _skew(a):
    return np.array([[0, -a[2], a[1]], [a[2], 0, -a[0]], [-a[1], a[0], 0]], dtype=float)


def _exp(psi):
    """Independent Rodrigues formula (harness side)."""
    psi = np.asarray(psi, dtype=float)
    a = float(np.linalg.norm(psi))
    if a < 1e-12:
        return np.eye(3) + _skew(psi)
    K = _skew(psi / a)
    return np.eye(3) + math.sin(a) * K + (2 * math.sin(a / 2) ** 2) * (K @ K)


def quat_to_R(P):
    """Independent rotation matrix of a (not necessarily unit) quaternion via the sandwich product."""
    P = np.asarray(P, dtype=float)
    n2 = float(P @ P)
    w, x, y, z = P
    return (
        np.array(
            [
                [w * w + x * x - y * y - z * z, 2 * (x * y - w * z), 2 * (x * z + w * y)],
                [2 * (x * y + w * z), w * w - x * x + y * y - z * z, 2 * (y * z - w * x)],
                [2 * (x * z - w * y), 2 * (y * z + w * x), w * w - x * x - y * y + z * z],
            ]
        )
        / n2
    )
