"""Differencing oracle: Richardson-extrapolated central differences with a conclusiveness test."""

import os

import numpy as np

# Purity probe: the differenced function is evaluated at the base point before and after the differencing sweep; a
# value that changed (beyond round-off) means the code under test answers from stale state (a memo keyed on part of
# its arguments, an aliased buffer). Entries are (site, magnitude, detail); harness.runner.run_case turns them into
# failures of the sub-check 'repeated_evaluation_same_arguments'.
IMPURE = []


def _site(f):
    c = getattr(f, "__code__", None)
    return f"{os.path.basename(c.co_filename)}:{c.co_firstlineno}" if c is not None else "function"


def _probe(f, before, after):
    try:
        a, b = np.asarray(before, dtype=float), np.asarray(after, dtype=float)
        if a.shape != b.shape:
            IMPURE.append((_site(f), None, f"shape {a.shape} then {b.shape}"))
            return
        if a.size and np.all(np.isfinite(a)) and np.all(np.isfinite(b)):
            d = float(np.max(np.abs(a - b)))
            if d > 1e-10 * (1.0 + float(np.max(np.abs(a)))):
                IMPURE.append((_site(f), d, f"same arguments, values differ by {d:.3e} after the function was evaluated elsewhere"))
    except Exception:  # noqa - the probe must never disturb a check
        pass


def _cd(f, x, i, h):
    xp = x.copy()
    xm = x.copy()
    xp.flat[i] += h
    xm.flat[i] -= h
    return (np.asarray(f(xp), dtype=float) - np.asarray(f(xm), dtype=float)) / (2 * h)


def jacobian(f, x, h=1e-3, levels=True):
    """d f / d x by central differences with one Richardson step (error O(h^4)).

    Returns (J, disagreement) where J has shape f(x).shape + x.shape and disagreement is the
    max abs difference between the extrapolations built from (h, h/2) and (h/2, h/4).
    h may be a scalar or an array of x's shape (per-component steps).
    """
    x = np.asarray(x, dtype=float)
    hh = np.broadcast_to(np.asarray(h, dtype=float), x.shape).reshape(-1) if np.ndim(h) else None
    cols1, cols2 = [], []
    before = np.array(f(x.copy()), dtype=float, copy=True) if x.size else None
    for i in range(x.size):
        hi = float(hh[i]) if hh is not None else float(h)
        d1 = _cd(f, x, i, hi)
        d2 = _cd(f, x, i, hi / 2)
        r1 = (4 * d2 - d1) / 3
        if levels:
            d3 = _cd(f, x, i, hi / 4)
            r2 = (4 * d3 - d2) / 3
        else:
            r2 = r1
        cols1.append(r1)
        cols2.append(r2)
    if x.size == 0:
        f0 = np.asarray(f(x), dtype=float)
        return np.zeros(f0.shape + x.shape), 0.0
    _probe(f, before, f(x.copy()))
    J1 = np.stack(cols1, axis=-1)
    J2 = np.stack(cols2, axis=-1)
    dis = float(np.max(np.abs(J1 - J2))) if J1.size else 0.0
    return J2.reshape(J2.shape[:-1] + x.shape), dis


def directional(f, eps_h=1e-3):
    """d/d eps f(eps) at eps = 0, Richardson; returns (value, disagreement)."""

    def cd(h):
        return (np.asarray(f(h), dtype=float) - np.asarray(f(-h), dtype=float)) / (2 * h)

    before = np.array(f(0.0), dtype=float, copy=True)
    d1, d2, d3 = cd(eps_h), cd(eps_h / 2), cd(eps_h / 4)
    _probe(f, before, f(0.0))
    r1 = (4 * d2 - d1) / 3
    r2 = (4 * d3 - d2) / 3
    dis = float(np.max(np.abs(r1 - r2))) if np.size(r1) else 0.0
    return r2, dis


def compare(res, subcheck, site, analytic, numeric, dis, features=None, tol=1e-6, relative=False,
            dis_tol=1e-7, detail=None, scale=None):
    """Record the verdict of one derivative comparison into Result `res`.

    inconclusive (two differencing levels disagree) is counted, never a violation.
    absolute/relative mix: err <= tol * (1 + max|numeric|)   (relative=False)
    purely relative:       err <= tol * max(|analytic|, |numeric|)   (relative=True)
    explicit scale:        err <= tol * scale                        (scale=...)
    """
    scale_override = scale
    analytic = np.asarray(analytic, dtype=float)
    numeric = np.asarray(numeric, dtype=float)
    if analytic.shape != numeric.shape:
        try:
            analytic = analytic.reshape(numeric.shape)
        except Exception:
            res.fail(subcheck, site, None, features, f"shape {analytic.shape} vs {numeric.shape}")
            return False
    if numeric.size == 0:
        res.ok()
        return True
    if not (np.all(np.isfinite(numeric))):
        res.inconclusive += 1
        return True
    if not np.all(np.isfinite(analytic)):
        res.fail(subcheck, site, None, features, "non-finite analytic derivative")
        return False
    scale = max(float(np.max(np.abs(numeric))), float(np.max(np.abs(analytic))))
    ref = scale if relative else 1.0 + float(np.max(np.abs(numeric)))
    if scale_override is not None:
        ref = float(scale_override)
    if dis > dis_tol * (ref if ref > 0 else 1.0):
        res.inconclusive += 1
        return True
    err = float(np.max(np.abs(analytic - numeric)))
    res.ok()
    if err > tol * ref and err > 0:
        res.fail(subcheck, site, err, features, detail or f"err={err:.3e} ref={ref:.3e}")
        return False
    return True
