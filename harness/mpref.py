"""High-precision (mpmath) reference implementations of the SO(3)/SE(3) maps, written from the
mathematical definitions and independent of cardillo's formulas."""

import mpmath as mp
import numpy as np

mp.mp.dps = 40


def mpv(x):
    return [mp.mpf(float(v)) for v in x]


def skew(a):
    return mp.matrix([[0, -a[2], a[1]], [a[2], 0, -a[0]], [-a[1], a[0], 0]])


def norm(a):
    return mp.sqrt(sum(v * v for v in a))


def sinc(a):
    return mp.mpf(1) if a == 0 else mp.sin(a) / a


def exp_so3(psi):
    """Rodrigues: I + sin(a)/a K + (1-cos a)/a^2 K^2 with series-free stable evaluation."""
    a = norm(psi)
    K = skew(psi)
    if a == 0:
        return mp.eye(3)
    c1 = mp.sin(a) / a
    c2 = 2 * mp.sin(a / 2) ** 2 / a**2
    return mp.eye(3) + c1 * K + c2 * (K * K)


def t_so3(psi):
    """Tangent map in cardillo's convention: axial(A^T dA) = T(psi) dpsi.
    T = I - (1-cos a)/a^2 K + (a - sin a)/a^3 K^2."""
    a = norm(psi)
    K = skew(psi)
    if a == 0:
        return mp.eye(3)
    c2 = 2 * mp.sin(a / 2) ** 2 / a**2
    c3 = (a - mp.sin(a)) / a**3
    return mp.eye(3) - c2 * K + c3 * (K * K)


def t_so3_inv(psi):
    return mp.inverse(t_so3(psi))


def log_so3(A):
    """Robust logarithm of a rotation matrix via the unit quaternion (largest-component branch)."""
    q = quat_from_R(A)
    w = q[0]
    v = q[1:]
    nv = norm(v)
    if nv == 0:
        return [mp.mpf(0)] * 3
    if w < 0:
        w, v = -w, [-x for x in v]
    ang = 2 * mp.atan2(nv, w)
    return [ang * x / nv for x in v]


def quat_from_R(A):
    tr = A[0, 0] + A[1, 1] + A[2, 2]
    dec = [A[0, 0], A[1, 1], A[2, 2], tr]
    i = max(range(4), key=lambda k: dec[k])
    q = [mp.mpf(0)] * 4
    if i == 3:
        q[0] = mp.sqrt(1 + tr) / 2
        q[1] = (A[2, 1] - A[1, 2]) / (4 * q[0])
        q[2] = (A[0, 2] - A[2, 0]) / (4 * q[0])
        q[3] = (A[1, 0] - A[0, 1]) / (4 * q[0])
    else:
        j = (i + 1) % 3
        k = (j + 1) % 3
        q[i + 1] = mp.sqrt(A[i, i] / 2 + (1 - tr) / 4)
        q[0] = (A[k, j] - A[j, k]) / (4 * q[i + 1])
        q[j + 1] = (A[j, i] + A[i, j]) / (4 * q[i + 1])
        q[k + 1] = (A[k, i] + A[i, k]) / (4 * q[i + 1])
    n = norm(q)
    return [x / n for x in q]


def exp_se3(h):
    """cardillo convention: H = [[Exp(psi), T(psi)^T r], [0, 1]]."""
    r, psi = h[:3], h[3:]
    A = exp_so3(psi)
    t = t_so3(psi).T * mp.matrix(r)
    H = mp.eye(4)
    for i in range(3):
        for j in range(3):
            H[i, j] = A[i, j]
        H[i, 3] = t[i]
    return H


def log_se3(H):
    A = H[:3, :3]
    psi = log_so3(A)
    r = t_so3_inv(psi).T * mp.matrix([H[0, 3], H[1, 3], H[2, 3]])
    return [r[0], r[1], r[2]] + list(psi)


def quat_R(P):
    w, x, y, z = P
    n2 = w * w + x * x + y * y + z * z
    return (
        mp.matrix(
            [
                [w * w + x * x - y * y - z * z, 2 * (x * y - w * z), 2 * (x * z + w * y)],
                [2 * (x * y + w * z), w * w - x * x + y * y - z * z, 2 * (y * z - w * x)],
                [2 * (x * z - w * y), 2 * (y * z + w * x), w * w - x * x - y * y + z * z],
            ]
        )
        / n2
    )


def to_np(M):
    if isinstance(M, mp.matrix):
        return np.array([[float(M[i, j]) for j in range(M.cols)] for i in range(M.rows)])
    return np.array([float(v) for v in M])


def diff_array(fun, x, h=None):
    """d fun / d x_k for a function of an mp vector returning an mp matrix or list; central
    differences in 40-digit arithmetic with step 1e-12*scale (truncation ~1e-24)."""
    n = len(x)
    scale = max([abs(v) for v in x] + [mp.mpf(1)])
    h = mp.mpf(10) ** (-12) * scale if h is None else h
    cols = []
    for k in range(n):
        xp = list(x)
        xm = list(x)
        xp[k] += h
        xm[k] -= h
        fp, fm = fun(xp), fun(xm)
        cols.append((to_np_hp(fp, fm, h)))
    return np.stack(cols, axis=-1)


def to_np_hp(fp, fm, h):
    if isinstance(fp, mp.matrix):
        return np.array([[float((fp[i, j] - fm[i, j]) / (2 * h)) for j in range(fp.cols)] for i in range(fp.rows)])
    return np.array([float((a - b) / (2 * h)) for a, b in zip(fp, fm)])
