"""Spec -> assembled cardillo System (bodies, frames, joints, force elements, contacts, rods)."""

import numpy as np

from harness import build, gen
from harness.runner import quiet


def make_joint(js, s1, s2):
    from cardillo import constraints as C

    t = js["type"]
    r_OJ0 = None if js.get("r_OJ0") is None else np.array(js["r_OJ0"], dtype=float)
    A_IJ0 = None if js.get("psi_J") is None else gen._exp(np.array(js["psi_J"], dtype=float))
    xi1, xi2 = js.get("xi1"), js.get("xi2")
    xi1 = None if xi1 is None else float(xi1)
    xi2 = None if xi2 is None else float(xi2)
    if t == "Spherical":
        if r_OJ0 is None:
            r_OJ0 = np.asarray(s2.r_OP(0.0, s2.q0) if hasattr(s2, "nq") and s2.nq else s1.r_OP(0.0, s1.q0), dtype=float)
        j = C.Spherical(s1, s2, r_OJ0=r_OJ0, xi1=xi1, xi2=xi2)
    elif t == "RigidConnection":
        j = C.RigidConnection(s1, s2, r_OJ0=r_OJ0, A_IJ0=A_IJ0, xi1=xi1, xi2=xi2)
    elif t == "Revolute":
        j = C.Revolute(s1, s2, axis=js["axis"], angle0=js.get("angle0", 0.0), r_OJ0=r_OJ0, A_IJ0=A_IJ0, xi1=xi1, xi2=xi2)
    elif t in ("Prismatic", "Cylindrical", "Planarizer"):
        j = getattr(C, t)(s1, s2, axis=js["axis"], r_OJ0=r_OJ0, A_IJ0=A_IJ0, xi1=xi1, xi2=xi2)
    elif t == "FixedDistance":
        j = C.FixedDistance(s1, s2, xi1=xi1, xi2=xi2, B1_r_P1J1=np.array(js.get("B1", [0, 0, 0]), dtype=float),
                            B2_r_P2J2=np.array(js.get("B2", [0, 0, 0]), dtype=float))
    else:
        raise ValueError(t)
    if "name" in js:
        j.name = js["name"]
    return j


def new_system(t0=0.0):
    from cardillo import System

    return System(t0=float(t0))


def assemble(system, consistent=False, **kw):
    from cardillo.solver import SolverOptions

    with quiet():
        if consistent:
            system.assemble(**kw)
        else:
            system.assemble(options=SolverOptions(compute_consistent_initial_conditions=False))
    return system


def dense(M):
    return M.toarray() if hasattr(M, "toarray") else np.asarray(M)


def quat_slices(system):
    """slices of the global q that hold quaternions (rigid bodies)"""
    out = []
    for c in system.contributions:
        if c.__class__.__name__ == "RigidBody" or (hasattr(c, "nq") and getattr(c, "nq", 0) == 7 and hasattr(c, "B_Theta_C")):
            out.append(slice(int(c.qDOF[3]), int(c.qDOF[6]) + 1))
    return out


# --------------------------------------------------------------------------------------
# interactions, scalar force laws, actuators, forces
# --------------------------------------------------------------------------------------
def make_tpi(ts, s1, s2):
    from cardillo.interactions import TwoPointInteraction

    kw = {}
    if ts.get("xi1") is not None:
        kw["xi1"] = float(ts["xi1"])
    if ts.get("xi2") is not None:
        kw["xi2"] = float(ts["xi2"])
    return TwoPointInteraction(s1, s2, B_r_CP1=np.array(ts.get("B1", [0, 0, 0]), dtype=float),
                               B_r_CP2=np.array(ts.get("B2", [0, 0, 0]), dtype=float), name=ts.get("name", "tpi"), **kw)


def make_force_law(es, inter):
    """es: {"type": Spring|KelvinVoigt|Maxwell, k, d, l_ref (None allowed), compliance}"""
    from cardillo.force_laws import Spring, KelvinVoigtElement, MaxwellElement

    t = es["type"]
    l_ref = es.get("l_ref")
    if t == "Spring":
        return Spring(inter, es["k"], l_ref=l_ref, compliance_form=es.get("compliance", True), name="spring")
    if t == "KelvinVoigt":
        return KelvinVoigtElement(inter, es["k"], es["d"], l_ref=l_ref, compliance_form=es.get("compliance", True),
                                  name="kelvin_voigt")
    if t == "Maxwell":
        return MaxwellElement(inter, es["k"], es["d"], l_ref=l_ref, q0=np.array([es.get("l_d0", 0.0)], dtype=float),
                              name="maxwell")
    raise ValueError(t)


def make_actuator(as_, joint):
    from cardillo.actuators import Motor, PDcontroller, PIDcontroller

    t = as_["type"]
    w = as_.get("w", 1.0)
    amp = np.array(as_["amp"], dtype=float)
    if t == "Motor":
        a = Motor(joint, lambda t_: float(amp[0] * np.cos(w * t_)))
    elif t == "PD":
        a = PDcontroller(joint, as_["kp"], as_["kd"], lambda t_: amp[:2] * np.array([np.cos(w * t_), np.sin(w * t_)]))
    else:
        a = PIDcontroller(joint, as_["kp"], as_["ki"], as_["kd"],
                          lambda t_: amp[:2] * np.array([np.cos(w * t_), np.sin(w * t_)]))
    a.name = as_.get("name", "actuator_" + t)
    return a


def make_load(ls, body):
    """ls: {"type": Force|B_Force|Moment|B_Moment, "f0": [3], "f1": [3] (time-dependent part), "B_r_CP": [3]}"""
    from cardillo.forces import Force, B_Force, Moment, B_Moment

    f0 = np.array(ls["f0"], dtype=float)
    f1 = np.array(ls.get("f1", [0, 0, 0]), dtype=float)
    w = ls.get("w", 1.0)
    fun = (lambda t_: f0 + f1 * np.sin(w * t_)) if np.any(f1) else f0
    t = ls["type"]
    xi = ls.get("xi")
    kw = {} if xi is None else {"xi": float(xi)}
    if t in ("Force", "B_Force"):
        cls = Force if t == "Force" else B_Force
        o = cls(fun, body, B_r_CP=np.array(ls.get("B_r_CP", [0, 0, 0]), dtype=float), name=ls.get("name", t), **kw)
    else:
        cls = Moment if t == "Moment" else B_Moment
        o = cls(fun, body, name=ls.get("name", t), **kw)
    return o
