"""Spec -> assembled cardillo System (bodies, frames, joints, force elements, contacts, rods)."""

import numpy as np

from harness import build, gen
from harness.runner import quiet


def make_joint(js, s1, s2):
    from cardillo import constraints as C

    t = js["type"]
    r_OJ0 = None if js.get("r_OJ0") is None else np.array(js["r_OJ0"], dtype=float)
    A_IJ0 = None if js.get("psi_J") is None else gen._exp(np.array(js["psi_J"], dtype=float))
    xi1, xi2 = js.get("xi1"), js.get("xi2")
    xi1 = None if xi1 is None else (float(xi1),)
    xi2 = None if xi2 is None else (float(xi2),)
    if t == "Spherical":
        if r_OJ0 is None:
            r_OJ0 = np.asarray(s2.r_OP(0.0, s2.q0) if hasattr(s2, "nq") and s2.nq else s1.r_OP(0.0, s1.q0), dtype=float)
        j = C.Spherical(s1, s2, r_OJ0=r_OJ0, xi1=xi1, xi2=xi2)
    elif t == "RigidConnection":
        j = C.RigidConnection(s1, s2, r_OJ0=r_OJ0, A_IJ0=A_IJ0, xi1=xi1, xi2=xi2)
    elif t == "Revolute":
        j = C.Revolute(s1, s2, axis=js["axis"], angle0=js.get("angle0", 0.0), r_OJ0=r_OJ0, A_IJ0=A_IJ0, xi1=xi1, xi2=xi2)
    elif t in ("Prismatic", "Cylindrical", "Planarizer"):
        j = getattr(C, t)(s1, s2, axis=js["axis"], r_OJ0=r_OJ0, A_IJ0=A_IJ0, xi1=xi1, xi2=xi2)
    elif t == "FixedDistance":
        j = C.FixedDistance(s1, s2, xi1=xi1, xi2=xi2, B1_r_P1J1=np.array(js.get("B1", [0, 0, 0]), dtype=float),
                            B2_r_P2J2=np.array(js.get("B2", [0, 0, 0]), dtype=float))
    else:
        raise ValueError(t)
    if "name" in js:
        j.name = js["name"]
    return j


def new_system(t0=0.0):
    from cardillo import System

    return System(t0=float(t0))


def assemble(system, consistent=False, **kw):
    from cardillo.solver import SolverOptions

    with quiet():
        if consistent:
            system.assemble(**kw)
        else:
            system.assemble(options=SolverOptions(compute_consistent_initial_conditions=False))
    return system


def dense(M):
    return M.toarray() if hasattr(M, "toarray") else np.asarray(M)


def quat_slices(system):
    """slices of the global q that hold quaternions (rigid bodies)"""
    out = []
    for c in system.contributions:
        if c.__class__.__name__ == "RigidBody" or (hasattr(c, "nq") and getattr(c, "nq", 0) == 7 and hasattr(c, "B_Theta_C")):
            out.append(slice(int(c.qDOF[3]), int(c.qDOF[6]) + 1))
    return out
