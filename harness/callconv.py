"""Calling conventions for the pure math routines (C01-C03).

The properties quantify over *values*; a caller may hand those values over in a fresh array, or - as the rods and the
solvers do with q[3:] and h[3:] - as a view into a work buffer that is overwritten in place between calls. `Proxy`
wraps a module so that, in mode "buffer", every 1-D float array argument of every call is copied into a persistent
buffer (one per function name and argument position) and passed as a view of it; results are copied on return. A
routine that memoises on the identity of its argument, or keeps a reference to it, then answers from stale state and
the ordinary oracles of the check see it."""

import numpy as np


class Proxy:
    def __init__(self, module, mode="fresh"):
        self._m = module
        self._mode = mode
        self._buf = {}

    def _arg(self, fname, i, a):
        if self._mode != "buffer" or not isinstance(a, np.ndarray) or a.ndim != 1 or a.dtype != float:
            return a
        key = (fname, i, a.size)
        if key not in self._buf:
            self._buf[key] = np.zeros(a.size + 3)
        view = self._buf[key][3:]
        view[:] = a
        return view

    def __getattr__(self, name):
        f = getattr(self._m, name)
        if not callable(f) or self._mode == "fresh":
            return f

        def call(*args, **kw):
            out = f(*[self._arg(name, i, a) for i, a in enumerate(args)], **kw)
            if isinstance(out, np.ndarray):
                return out.copy()
            if isinstance(out, tuple):
                return tuple(o.copy() if isinstance(o, np.ndarray) else o for o in out)
            return out

        return call
