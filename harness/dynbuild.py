"""Small dynamic systems (mechanisms, contact scenes) and a uniform way to run the solvers."""

import warnings

import numpy as np
from hypothesis import strategies as st

from harness import gen, build, sysbuild
from harness.runner import quiet

G = 9.81
DYNAMIC_SOLVERS = ["Moreau", "Rattle", "BackwardEuler", "DualStormerVerlet", "ScipyIVP", "ScipyDAE"]
NONSMOOTH_SOLVERS = ["Moreau", "Rattle", "BackwardEuler", "DualStormerVerlet"]


def options(**kw):
    from cardillo.solver import SolverOptions

    base = dict(newton_atol=1e-10, newton_rtol=1e-10, fixed_point_atol=1e-10, fixed_point_rtol=1e-10,
                fixed_point_max_iter=5000, newton_max_iter=50)
    base.update(kw)
    return SolverOptions(**base)


def make_solver(name, system, t1, dt, opts=None, **kw):
    from cardillo import solver as S

    opts = options() if opts is None else opts
    if name in ("ScipyIVP", "ScipyDAE"):
        kw2 = dict(rtol=kw.pop("rtol", 1e-8), atol=kw.pop("atol", 1e-10))
        kw2.update(kw)
        return getattr(S, name)(system, t1, dt, **kw2)
    if name == "DualStormerVerlet":
        return S.DualStormerVerlet(system, t1, dt, options=opts, **kw)
    return getattr(S, name)(system, t1, dt, options=opts, **kw)


class WorkBudgetExceeded(Exception):
    """An adaptive third-party integrator (scipy / scipy_dae) kept shrinking its step: the run is abandoned after a
    fixed number of right-hand-side evaluations (a count, not a time limit) and the case is inconclusive."""


# typical runs of the checks need 1e2 ... 1e4 evaluations (measured maxima: 1.3e3 ScipyIVP, 9.3e3 ScipyDAE)
WORK_BUDGET = {"ScipyIVP": 200000, "ScipyDAE": 60000}
MAX_WORK_SEEN = {"ScipyIVP": 0, "ScipyDAE": 0}


def _budgeted(name, solver):
    attr = "eqm" if name == "ScipyIVP" else "fun"
    inner = getattr(solver, attr)
    count = [0]

    def counted(*a, **k):
        count[0] += 1
        if count[0] > WORK_BUDGET[name]:
            raise WorkBudgetExceeded(f"{name}: more than {WORK_BUDGET[name]} evaluations of the right-hand side")
        return inner(*a, **k)

    setattr(solver, attr, counted)
    return count


def run(name, system, t1, dt, opts=None, record_warnings=False, **kw):
    """Returns (solution, warnings list)."""
    with warnings.catch_warnings(record=True) as rec:
        warnings.simplefilter("always")
        with quiet():
            solver = make_solver(name, system, t1, dt, opts, **kw)
            count = _budgeted(name, solver) if name in WORK_BUDGET else None
            try:
                sol = solver.solve()
            finally:
                if count is not None:
                    MAX_WORK_SEEN[name] = max(MAX_WORK_SEEN[name], count[0])
    return sol, [str(w.message) for w in rec]


# --------------------------------------------------------------------------------------
# mechanisms (bilateral constraints only)
# --------------------------------------------------------------------------------------
@st.composite
def mechanism(draw, closed_loops=True, point_masses=True, conservative=False, max_bodies=3):
    """Open or closed chain hanging from the origin. Consistent initial velocities are built as a rigid motion of
    the whole mechanism that the first joint permits (zero for closed loops)."""
    kind = draw(st.sampled_from(["chain", "chain", "loop", "point_pendulum"] if (closed_loops and point_masses)
                                else ["chain", "chain", "point_pendulum"] if point_masses else ["chain"]))
    spec = {"kind": kind, "gravity": [draw(gen.f(-2, 2)), draw(gen.f(-2, 2)), -G]}
    if kind == "point_pendulum":
        n = draw(st.integers(1, 3))
        pts = []
        pos = np.zeros(3)
        for i in range(n):
            d = np.array(draw(gen.unit_vec3(special=False))) * draw(gen.f(0.5, 1.2))
            pos = pos + d
            pts.append({"kind": "point", "mass": draw(gen.f(0.3, 3.0)), "r": pos.tolist(), "v": [0.0] * 3})
        spec["bodies"] = pts
        spec["rate"] = draw(gen.f(-2, 2))
        spec["axis"] = draw(gen.unit_vec3())
        return spec
    nb = draw(st.integers(1, max_bodies)) if kind == "chain" else 2
    bodies, joints = [], []
    for i in range(nb):
        b = draw(build.rigid_body(unit=True))
        b["r"] = [0.8 + 1.2 * i + draw(gen.f(-0.15, 0.15)), draw(gen.f(-0.2, 0.2)), draw(gen.f(-0.2, 0.2))]
        bodies.append(b)
    first = draw(st.sampled_from(["Revolute", "Revolute", "Spherical"] if conservative else
                                 ["Revolute", "Revolute", "Spherical", "Prismatic", "Cylindrical"]))
    joints.append({"type": first, "axis": draw(st.integers(0, 2)), "r_OJ0": [draw(gen.f(-0.2, 0.2)) for _ in range(3)],
                   "psi_J": draw(gen.rotvec(min_exp=-2, near_max=False)), "angle0": 0.0})
    for i in range(1, nb):
        joints.append({"type": draw(st.sampled_from(["Revolute", "Spherical", "Revolute", "RigidConnection", "Cylindrical"]
                                                    if not conservative else ["Revolute", "Spherical"])),
                       "axis": draw(st.integers(0, 2)),
                       "r_OJ0": [0.2 + 1.2 * i + draw(gen.f(-0.1, 0.1)), draw(gen.f(-0.1, 0.1)), draw(gen.f(-0.1, 0.1))],
                       "psi_J": draw(gen.rotvec(min_exp=-2, near_max=False)), "angle0": 0.0})
    if kind == "chain" and draw(st.integers(0, 5)) == 0:
        # the last joint sits exactly at the centre of mass of the body it carries
        joints[-1]["r_OJ0"] = list(bodies[-1]["r"])
    spec.update(bodies=bodies, joints=joints, rate=draw(gen.f(-2, 2)))
    if kind == "loop":
        # mobility 12 - 5 (or 3) - 3 - 3 >= 1: no redundant constraints (a redundant loop makes every solver's
        # iteration matrix singular, which is a modelling error, not a case of any property)
        if joints[0]["type"] not in ("Revolute", "Spherical"):
            joints[0]["type"] = "Revolute"
        joints[1]["type"] = "Spherical"
        # close the chain with a spherical joint between the last body and the origin (four-bar like); at rest
        last = bodies[-1]
        # joints off the common line: a collinear layout is a singular (dead-point) configuration
        joints[1]["r_OJ0"][1] = 0.4 + draw(gen.f(0.0, 0.3))
        spec["closing"] = {"type": "Spherical", "r_OJ0": [last["r"][0] + 0.6, -0.5 - draw(gen.f(0.0, 0.3)), 0.3 + draw(gen.f(0.0, 0.3))]}
        spec["rate"] = 0.0
    if kind == "chain" and not conservative and draw(st.booleans()):
        # rheonomic constraint: the chain hangs from a translating (and possibly rotating) frame with non-constant
        # velocity; the frame sits at the identity orientation at t = 0
        m = draw(build.motion(moving=True, rotating=draw(st.booleans())))
        m["c0"] = [0.0, 0.0, 0.0]
        m["psi0"] = [0.0, 0.0, 0.0]
        for k in ("c1", "c2", "a"):
            m[k] = (0.5 * np.array(m[k])).tolist()
        if "axis" in m:
            m["b1"], m["b2"] = 0.5 * m["b1"], 0.5 * m["b2"]
        spec["base_motion"] = m
    if kind == "chain" and not conservative and draw(st.integers(0, 2)) == 0:
        # initial orientations given as non-unit quaternions (the bodies accept them; assembly normalises them)
        spec["p_scale"] = draw(st.sampled_from([0.8, 1.25]))
    if kind == "chain" and not conservative and nb >= 2 and draw(st.integers(0, 2)) == 0:
        # a sphere-sphere contact element between the first two bodies with radii so small that it never closes: it takes
        # part in every step (step_callback, active-set logic) without changing the motion
        spec["idle_contact"] = True
    if kind == "chain":
        revs_ = [i for i, j in enumerate(joints) if j["type"] == "Revolute"]
        if revs_ and draw(st.integers(0, 2)) == 0:
            # a torsional spring on a revolute joint (acts on the tracked joint angle)
            spec["joint_spring"] = {"joint": draw(st.sampled_from(revs_)), "k": draw(gen.f(1.0, 15.0)),
                                    "l_ref": draw(gen.f(-1.0, 1.0)), "compliance": draw(st.integers(0, 2)) == 0}
    if kind == "chain" and not conservative:
        revs = [i for i, j in enumerate(joints) if j["type"] == "Revolute"]
        if revs and draw(st.booleans()):
            # a drive on a revolute joint: actuator (W_tau la_tau) or a Maxwell element (internal coordinate without
            # velocity partner, like the PID controller's error integral)
            spec["drive"] = {"joint": draw(st.sampled_from(revs)), "type": draw(st.sampled_from(["Motor", "PD", "PID", "Maxwell"])),
                             "amp": [draw(gen.f(-3, 3)), draw(gen.f(-1, 1))], "w": draw(gen.f(0.5, 4.0)),
                             "kp": draw(gen.f(1, 20)), "ki": draw(gen.f(0.5, 5)), "kd": draw(gen.f(0.1, 2)),
                             "k": draw(gen.f(2, 30)), "d": draw(gen.f(0.5, 5))}
    if draw(st.booleans()):
        spec["spring"] = {"k": draw(gen.f(5, 60)), "l_ref": draw(gen.f(0.5, 2.0)) if conservative or draw(st.integers(0, 2)) else None,
                          # attached at an eccentric point or at the centre of mass; force form or compliance form
                          "B2": draw(gen.vec3(-2, -0.7)) if draw(st.integers(0, 3)) else [0.0, 0.0, 0.0],
                          "compliance": draw(st.integers(0, 2)) == 0,
                          # from a point of the inertial frame, or (chains of two or more bodies) from a material point of
                          # the first body, to the last body
                          "B1_body": draw(gen.vec3(-2, -0.7)) if (kind == "chain" and nb >= 2 and draw(st.booleans())) else None,
                          "d": 0.0 if conservative else draw(st.sampled_from([0.0, 0.0, 0.5]))}
    return spec


def build_mechanism(spec, t0=0.0, state=None, consistent=True, opts=None):
    """state = (t, q, u) overrides the initial state (used by restart / reversal checks)."""
    from cardillo.constraints import FixedDistance
    from cardillo.forces import Force
    from checks.c16 import _rigid_motion_velocity

    system = sysbuild.new_system(t0)
    g = np.array(spec["gravity"], dtype=float)
    objs = {"bodies": [], "joints": []}
    if spec["kind"] == "point_pendulum":
        bs = [dict(b) for b in spec["bodies"]]
        w = spec["rate"] * np.array(spec["axis"], dtype=float)
        for b in bs:
            b["v"] = np.cross(w, np.array(b["r"])).tolist()
        bodies = [build.make_body(b, name=f"pm{i}") for i, b in enumerate(bs)]
        system.add(*bodies)
        prev = system.origin
        for i, b in enumerate(bodies):
            j = FixedDistance(prev, b)
            j.name = f"rod{i}"
            system.add(j)
            objs["joints"].append(j)
            system.add(Force(g * bs[i]["mass"], b, name=f"gravity{i}"))
            prev = b
        objs["bodies"] = bodies
    else:
        bs = [dict(b) for b in spec["bodies"]]
        j0 = spec["joints"][0]
        _rigid_motion_velocity(bs, j0, gen._exp(np.array(j0["psi_J"], dtype=float)), np.array(j0["r_OJ0"], dtype=float),
                               spec["rate"])
        prev = system.origin
        if "base_motion" in spec:
            f = build.motion_functions(spec["base_motion"])
            shift = f["r"](t0) - f["r"](0.0)
            # the whole mechanism moves with the frame: v += r_t + omega x (r - r_frame), omega += omega_frame
            A0, A0_t = f["A"](t0), f["A_t"](t0)
            S = A0_t @ A0.T
            om = np.array([S[2, 1], S[0, 2], S[1, 0]])
            for b in bs:
                b["v"] = (np.array(b["v"]) + f["r_t"](t0) + np.cross(om, np.array(b["r"], dtype=float) - f["r"](t0))).tolist()
                b["omega"] = (np.array(b["omega"]) + gen.quat_to_R(np.array(b["P"], dtype=float)).T @ om).tolist()
            prev = build.make_frame(spec["base_motion"], name="base")
            system.add(prev)
        if spec.get("p_scale") and state is None:
            for b in bs:
                b["P"] = (spec["p_scale"] * np.array(b["P"], dtype=float)).tolist()
        bodies = [build.make_body(b, name=f"body{i}") for i, b in enumerate(bs)]
        system.add(*bodies)
        for i, js in enumerate(spec["joints"]):
            j = sysbuild.make_joint(js, prev, bodies[i])
            j.name = f"joint{i}"
            system.add(j)
            objs["joints"].append(j)
            prev = bodies[i]
        if "closing" in spec:
            j = sysbuild.make_joint(spec["closing"], system.origin, bodies[-1])
            j.name = "closing"
            system.add(j)
            objs["joints"].append(j)
        for i, b in enumerate(bodies):
            system.add(Force(g * bs[i]["mass"], b, name=f"gravity{i}"))
        if "spring" in spec:
            sp = spec["spring"]
            if sp.get("B1_body") is not None and len(bodies) >= 2:
                tpi = sysbuild.make_tpi({"B1": sp["B1_body"], "B2": sp["B2"], "name": "tpi"}, bodies[0], bodies[-1])
            else:
                tpi = sysbuild.make_tpi({"B1": [0.0, 0.0, 1.5], "B2": sp["B2"], "name": "tpi"}, system.origin, bodies[-1])
            system.add(tpi)
            es = {"type": "KelvinVoigt" if sp["d"] > 0 else "Spring", "k": sp["k"], "d": sp["d"], "l_ref": sp["l_ref"],
                  "compliance": bool(sp.get("compliance", False))}
            system.add(sysbuild.make_force_law(es, tpi))
        if spec.get("idle_contact") and len(bodies) >= 2:
            from cardillo.contacts import Sphere2Sphere
            system.add(Sphere2Sphere(bodies[0], bodies[1], 0.01, 0.01, 0.3, e_N=0.0, name="idle_contact"))
        if "joint_spring" in spec:
            js_ = spec["joint_spring"]
            tors = sysbuild.make_force_law({"type": "Spring", "k": js_["k"], "l_ref": js_["l_ref"], "compliance": js_["compliance"]},
                                           objs["joints"][js_["joint"]])
            tors.name = "joint_spring"
            system.add(tors)
        if "drive" in spec:
            dr = spec["drive"]
            jn = objs["joints"][dr["joint"]]
            if dr["type"] == "Maxwell":
                drive = sysbuild.make_force_law({"type": "Maxwell", "k": dr["k"], "d": dr["d"], "l_ref": None}, jn)
            else:
                drive = sysbuild.make_actuator(dr, jn)
            system.add(drive)
            objs["drive"] = drive
        objs["bodies"] = bodies
    with quiet():
        if consistent:
            system.assemble(options=opts or options())
        else:
            sysbuild.assemble(system)
    return system, objs


# --------------------------------------------------------------------------------------
# contact scenes
# --------------------------------------------------------------------------------------
@st.composite
def scene(draw, max_spheres=3, sphere_sphere=True, force_free=None, frictionless=None):
    ns = draw(st.integers(1, max_spheres))
    if force_free is None:
        force_free = draw(st.integers(0, 3)) == 0
    if frictionless is None:
        frictionless = force_free or draw(st.integers(0, 3)) == 0
    e_common = draw(gen.f(0.0, 1.0))
    spheres = []
    for i in range(ns):
        r = draw(gen.f(0.1, 0.3))
        rigid = draw(st.integers(0, 3)) > 0
        m = draw(gen.f(0.3, 3.0))
        z = r + draw(st.sampled_from([0.0, 0.0, 0.02, 0.3, 0.8]))
        pos = [0.9 * i + draw(gen.f(-0.1, 0.1)), draw(gen.f(-0.1, 0.1)), z]
        if force_free:
            v = [draw(gen.f(-1, 1)), draw(gen.f(-1, 1)), -draw(gen.f(0.2, 2.0)) if z > r else 0.0]
        else:
            v = [draw(gen.f(-1.5, 1.5)), draw(gen.f(-1, 1)), draw(gen.f(-1.5, 0.5)) if z > r else 0.0]
        s = {"radius": r, "mass": m, "rigid": rigid, "r": pos, "v": v,
             # a ball whose mass distribution is not uniform: principal inertias differ, random initial orientation
             "inertia": [draw(gen.f(0.15, 0.6)) for _ in range(3)] if rigid and not force_free and draw(st.booleans()) else None,
             "P": draw(gen.unit_quat()) if rigid else None,
             "omega": [draw(gen.f(-5, 5)) for _ in range(3)] if rigid and draw(st.booleans()) else [0.0] * 3,
             "mu": 0.0 if frictionless else draw(st.sampled_from([0.0, 0.1, 0.3, 0.6, 1.0])),
             "e_N": e_common if force_free else draw(st.sampled_from([0.0, 0.0, 0.5, 0.8, 1.0]))}
        spheres.append(s)
    spec = {"spheres": spheres, "gravity": [0.0, 0.0, 0.0] if force_free else [draw(gen.f(-1, 1)), draw(gen.f(-1, 1)), -G],
            "force_free": force_free, "plane": True, "pairs": []}
    if sphere_sphere and ns >= 2:
        for i in range(ns - 1):
            if draw(st.booleans()):
                spec["pairs"].append({"a": i, "b": i + 1, "mu": 0.0 if frictionless else draw(st.sampled_from([0.0, 0.3])),
                                      "e_N": e_common if force_free else draw(st.sampled_from([0.0, 0.5, 1.0]))})
        if force_free and spec["pairs"]:
            # head-on approach so that sphere-sphere impacts happen without gravity
            for p in spec["pairs"]:
                a, b = spheres[p["a"]], spheres[p["b"]]
                a["v"][0] = abs(a["v"][0]) + 0.5
                b["v"][0] = -abs(b["v"][0]) - 0.5
                a["r"][2] = b["r"][2] = max(a["r"][2], b["r"][2])
    if not force_free and draw(st.integers(0, 3)) == 0:
        # the plane moves along its normal with non-uniform velocity: z(t) = c1 t + a sin(w t)  (rheonomic contact)
        spec["plane_motion"] = {"c1": draw(gen.f(-0.5, 0.5)), "a": draw(gen.f(-0.1, 0.1)), "w": draw(gen.f(1.0, 6.0))}
    return spec


def build_scene(spec, t0=0.0, opts=None, consistent=True):
    from cardillo.contacts import Sphere2Plane, Sphere2Sphere
    from cardillo.discrete import Frame, RigidBody, PointMass
    from cardillo.forces import Force

    system = sysbuild.new_system(t0)
    pm = spec.get("plane_motion")
    vz0 = 0.0
    if pm:
        c1, a_, w_ = pm["c1"], pm["a"], pm["w"]
        ez = np.array([0.0, 0.0, 1.0])
        ground = Frame(r_OP=lambda t: ez * (c1 * t + a_ * np.sin(w_ * t)), r_OP_t=lambda t: ez * (c1 + a_ * w_ * np.cos(w_ * t)),
                       r_OP_tt=lambda t: -ez * a_ * w_ * w_ * np.sin(w_ * t), name="ground")
        vz0 = c1 + a_ * w_ * np.cos(w_ * t0)
        z0 = c1 * t0 + a_ * np.sin(w_ * t0)
    else:
        ground = Frame(name="ground")
    system.add(ground)
    g = np.array(spec["gravity"], dtype=float)
    bodies, contacts = [], []
    for i, s in enumerate(spec["spheres"]):
        if pm:
            # the generated heights and vertical velocities are relative to the plane
            s = dict(s)
            s["r"] = [s["r"][0], s["r"][1], s["r"][2] + z0]
            s["v"] = [s["v"][0], s["v"][1], s["v"][2] + vz0]
        if s["rigid"]:
            th = 0.4 * s["mass"] * s["radius"] ** 2 * np.eye(3)
            if s.get("inertia"):
                th = np.diag(s["inertia"]) * s["mass"] * s["radius"] ** 2
            P0 = s.get("P") or [1.0, 0.0, 0.0, 0.0]
            b = RigidBody(s["mass"], th, q0=np.array(list(s["r"]) + list(P0), dtype=float),
                          u0=np.array(list(s["v"]) + list(s["omega"]), dtype=float), name=f"sphere{i}")
        else:
            b = PointMass(s["mass"], q0=np.array(s["r"], dtype=float), u0=np.array(s["v"], dtype=float), name=f"sphere{i}")
        system.add(b)
        bodies.append(b)
        if np.any(g):
            system.add(Force(g * s["mass"], b, name=f"gravity{i}"))
        if spec.get("plane", True):
            c = Sphere2Plane(ground, b, mu=s["mu"], r=s["radius"], e_N=s["e_N"], e_F=0.0, name=f"s2p{i}")
            system.add(c)
            contacts.append(c)
    for k, p in enumerate(spec["pairs"]):
        a, b = spec["spheres"][p["a"]], spec["spheres"][p["b"]]
        c = Sphere2Sphere(bodies[p["a"]], bodies[p["b"]], a["radius"], b["radius"], p["mu"], e_N=p["e_N"], e_F=0.0,
                          name=f"s2s{k}")
        system.add(c)
        contacts.append(c)
    with quiet():
        if consistent:
            # the fixed-point loop of the consistency solve stalls near 6e-8 for some scenes; 1e-7 is ample here
            system.assemble(options=opts or options(fixed_point_atol=1e-7))
        else:
            sysbuild.assemble(system)
    return system, {"bodies": bodies, "contacts": contacts}
