"""Spec -> cardillo objects. Every builder is deterministic; specs are JSON data.

Also hosts the strategies that generate those specs (bodies, prescribed motions, states).
"""

import math

import numpy as np
from hypothesis import strategies as st

from harness import gen


# --------------------------------------------------------------------------------------
# prescribed motions (with analytic derivatives)
# --------------------------------------------------------------------------------------
@st.composite
def motion(draw, moving=None, rotating=None):
    """r(t) = c0 + c1 t + c2 t^2 + a sin(w t + ph);  A(t) = A0 Exp(axis * th(t)),
    th(t) = b1 t + b2 sin(w2 t)."""
    if moving is None:
        moving = draw(st.booleans())
    if rotating is None:
        rotating = draw(st.booleans()) if moving else False
    spec = {
        "c0": [draw(gen.f(-2, 2)) for _ in range(3)],
        "psi0": draw(gen.rotvec(min_exp=-2, near_max=False)),
    }
    if moving:
        spec.update(
            c1=[draw(gen.f(-1, 1)) for _ in range(3)],
            c2=[draw(gen.f(-0.5, 0.5)) for _ in range(3)],
            a=[draw(gen.f(-0.5, 0.5)) for _ in range(3)],
            w=draw(gen.f(0.2, 3.0)),
            ph=draw(gen.f(-3, 3)),
        )
    if moving and not rotating and draw(st.integers(0, 3)) == 0:
        # uniform translation whose derivatives are handed to Frame as constant arrays (r_OP_t = c1, r_OP_tt = 0), the
        # other documented way of prescribing a motion
        spec.update(c2=[0.0, 0.0, 0.0], a=[0.0, 0.0, 0.0], array_derivs=True)
    if rotating:
        spec.update(
            axis=draw(gen.unit_vec3()),
            b1=draw(gen.f(-2, 2)),
            b2=draw(gen.f(-1, 1)),
            w2=draw(gen.f(0.2, 3.0)),
        )
    return spec


def motion_functions(ms):
    c0 = np.array(ms["c0"], dtype=float)
    A0 = gen._exp(np.array(ms["psi0"], dtype=float))
    moving = "c1" in ms
    rotating = "axis" in ms
    if moving:
        c1, c2, a = (np.array(ms[k], dtype=float) for k in ("c1", "c2", "a"))
        w, ph = ms["w"], ms["ph"]
        r = lambda t: c0 + c1 * t + c2 * t * t + a * math.sin(w * t + ph)
        r_t = lambda t: c1 + 2 * c2 * t + a * w * math.cos(w * t + ph)
        r_tt = lambda t: 2 * c2 - a * w * w * math.sin(w * t + ph)
    else:
        r = lambda t: c0.copy()
        r_t = lambda t: np.zeros(3)
        r_tt = lambda t: np.zeros(3)
    if rotating:
        ax = np.array(ms["axis"], dtype=float)
        K = gen._skew(ax)
        b1, b2, w2 = ms["b1"], ms["b2"], ms["w2"]
        th = lambda t: b1 * t + b2 * math.sin(w2 * t)
        th_t = lambda t: b1 + b2 * w2 * math.cos(w2 * t)
        th_tt = lambda t: -b2 * w2 * w2 * math.sin(w2 * t)
        A = lambda t: A0 @ gen._exp(ax * th(t))
        A_t = lambda t: A(t) @ K * th_t(t)
        A_tt = lambda t: A(t) @ (K * th_tt(t) + K @ K * th_t(t) ** 2)
    else:
        A = lambda t: A0.copy()
        A_t = lambda t: np.zeros((3, 3))
        A_tt = lambda t: np.zeros((3, 3))
    return dict(r=r, r_t=r_t, r_tt=r_tt, A=A, A_t=A_t, A_tt=A_tt, moving=moving, rotating=rotating)


def make_frame(ms, name="frame"):
    from cardillo.discrete import Frame

    f = motion_functions(ms)
    if ms.get("array_derivs"):
        return Frame(r_OP=f["r"], r_OP_t=np.array(ms["c1"], dtype=float), r_OP_tt=np.zeros(3), A_IB=f["A"](0.0), name=name)
    if f["rotating"] and not f["moving"]:
        # turning about a constant origin: the origin is handed over as a plain array
        return Frame(r_OP=np.array(ms["c0"], dtype=float), A_IB=f["A"], A_IB_t=f["A_t"], A_IB_tt=f["A_tt"], name=name)
    if f["moving"] or f["rotating"]:
        return Frame(r_OP=f["r"], r_OP_t=f["r_t"], r_OP_tt=f["r_tt"], A_IB=f["A"], A_IB_t=f["A_t"],
                     A_IB_tt=f["A_tt"], name=name)
    return Frame(r_OP=f["r"](0.0), A_IB=f["A"](0.0), name=name)


# --------------------------------------------------------------------------------------
# bodies
# --------------------------------------------------------------------------------------
@st.composite
def rigid_body(draw, unit=False, wide_quat=False):
    if unit:
        P = draw(gen.unit_quat())
    elif wide_quat:
        P = draw(gen.quat(-1, 1))
    else:
        P = draw(gen.near_unit_quat())
    return {
        "kind": "rigid",
        "mass": draw(gen.f(0.2, 5.0)),
        "theta": draw(gen.spd3()),
        "r": [draw(gen.f(-2, 2)) for _ in range(3)],
        "P": P,
        "v": [draw(gen.f(-2, 2)) for _ in range(3)],
        "omega": [draw(gen.f(-3, 3)) for _ in range(3)],
    }


@st.composite
def point_mass(draw):
    return {
        "kind": "point",
        "mass": draw(gen.f(0.2, 5.0)),
        "r": [draw(gen.f(-2, 2)) for _ in range(3)],
        "v": [draw(gen.f(-2, 2)) for _ in range(3)],
    }


def make_body(bs, name=None):
    from cardillo.discrete import RigidBody, PointMass

    if bs["kind"] == "rigid":
        q0 = np.array(list(bs["r"]) + list(bs["P"]), dtype=float)
        u0 = np.array(list(bs["v"]) + list(bs["omega"]), dtype=float)
        return RigidBody(bs["mass"], np.array(bs["theta"], dtype=float), q0=q0, u0=u0, name=name or "rigid_body")
    if bs["kind"] == "point":
        return PointMass(bs["mass"], q0=np.array(bs["r"], dtype=float), u0=np.array(bs["v"], dtype=float),
                         name=name or "point_mass")
    if bs["kind"] == "frame":
        return make_frame(bs["motion"], name=name or "frame")
    raise ValueError(bs["kind"])


@st.composite
def frame_body(draw, moving=None, rotating=None):
    return {"kind": "frame", "motion": draw(motion(moving, rotating))}


def fd_steps(x, quat_slices=()):
    """Per-component differencing steps: 1e-3 * max(1, |x_i|), for quaternion blocks 1e-3 * |P|."""
    x = np.asarray(x, dtype=float)
    h = 1e-3 * np.maximum(1.0, np.abs(x))
    for sl in quat_slices:
        h[sl] = 1e-3 * max(float(np.linalg.norm(x[sl])), 1e-12)
    return h
